#!/bin/sh
# build the overlay interpreter (offline): z3 + cvc5 + the repo's own dependencies in one process
set -e
cd "$(dirname "$0")"
if [ ! -x .venv/bin/python ] || ! .venv/bin/python -c "import z3, numpy, numba, jsonschema" 2>/dev/null; then
  rm -rf .venv
  /venv/bin/python -m venv .venv
  PIP_NO_INDEX=1 .venv/bin/pip install -q --no-index --find-links /opt/veriftools/wheels z3-solver sympy jsonschema >/dev/null
  echo "import site; site.addsitedir('/venv/lib/python3.12/site-packages')" > .venv/lib/python3.12/site-packages/_repo_overlay.pth
fi
.venv/bin/python -c "import z3, numpy, numba, skglm; print('overlay ok: z3', z3.get_version_string(), 'skglm from', skglm.__file__)"

"""C14 -- general components reduce to the simpler ones they generalise.

One relational obligation per (pair, method): BOTH real methods are executed on the same symbolic inputs and
the results must be equal on every joint path (no spec takes part):
    WeightedL1(weights=1) == L1, L1_plus_L2(l1_ratio=1) == L1, WeightedMCPenalty(weights=1) == MCPenalty
        on value, prox_1d, subdiff_distance, alpha_max (both positivity flags)
    WeightedQuadratic(sample_weights=1) == Quadratic on every accessor; integer sample weights == replicated rows
    Huber(delta) == Quadratic where every |residual| < delta
    singleton groups: WeightedGroupL2 == WeightedL1 ; one task: L2_1 == L1 ; constant SLOPE == L1
    MCP with large gamma vs L1: explicit error bounds instead of a limit
    _gram_cd_epoch(cyclic) == _cd_epoch on the quadratic datafit (2x2)
Scalars are unbounded (U); vector/array cases are for enumerated small shapes (B).
"""
import numpy as np

from pv.core import add_task, describe

describe('C14', level='proof', floor=30,
         explanation='relational contracts general(config) == special on the real methods',
         assumptions=['array shapes enumerated (vectors of length 2-3, 2x2 / 3x2 designs); all real values'])

SEP = 'skglm.penalties.separable'


def _eq_all(sym, a, b):
    import z3
    fa = np.asarray(a, dtype=object).ravel()
    fb = np.asarray(b, dtype=object).ravel()
    if fa.shape != fb.shape:
        return z3.BoolVal(False)
    cs = []
    for x, y in zip(fa, fb):
        xi, yi = sym.is_inf(x), sym.is_inf(y)
        if xi or yi:
            cs.append(z3.BoolVal(xi and yi))
        else:
            cs.append(sym.lift(x) == sym.lift(y))
    return z3.And(*cs) if cs else z3.BoolVal(True)


def equiv(T, label, build, pre, strength='U'):
    from pv import sym
    from pv.sproof import check_contract
    check_contract(T, label, build, pre, lambda out, p: [('general==special', [], _eq_all(sym, out[0], out[1]))],
                   strength=strength, safety=False)


def sep_pair_task(T, general, special, positive):
    """separable penalty pairs on value / prox_1d / subdiff_distance / alpha_max"""
    import z3
    from pv import sym, symrun
    from pv.sproof import zpre
    from .catalog import objarr
    symrun.install()
    G, Sp = symrun.get(SEP, general), symrun.get(SEP, special)
    a, g_, x, s = z3.Real('alpha'), z3.Real('gamma'), z3.Real('x'), z3.Real('s')
    w = [z3.Real('w0'), z3.Real('w1')]
    gr = [z3.Real('g0'), z3.Real('g1')]
    R = sym.SymReal
    one = 1.0

    def mk():
        if general == 'WeightedL1':
            return G(R(a), objarr([one, one]), positive), Sp(R(a), positive)
        if general == 'L1_plus_L2':
            return G(R(a), one, positive), Sp(R(a), positive)
        if general == 'WeightedMCPenalty':
            return G(R(a), R(g_), objarr([one, one]), positive), Sp(R(a), R(g_), positive)
        raise KeyError(general)
    pre = zpre([a > 0, s > 0] + ([g_ > 0, s < g_] if 'MCP' in general else []))
    wv = lambda: np.array([R(w[0]), R(w[1])], dtype=object)
    gv = lambda: np.array([R(gr[0]), R(gr[1])], dtype=object)

    def both(f):
        def run():
            A, B = mk()
            return f(A), f(B)
        return run
    equiv(T, 'value', both(lambda P: P.value(wv())), pre)
    equiv(T, 'prox_1d', both(lambda P: P.prox_1d(R(x), R(s), 1)), pre)
    equiv(T, 'subdiff_distance', both(lambda P: P.subdiff_distance(wv(), gv(), np.array([1, 0]))), pre)
    equiv(T, 'alpha_max', both(lambda P: P.alpha_max(gv())), pre)
    equiv(T, 'is_penalized', both(lambda P: P.is_penalized(2).astype(float)), pre)
    equiv(T, 'generalized_support', both(lambda P: P.generalized_support(wv()).astype(float)), pre)


for _g, _s in (('WeightedL1', 'L1'), ('L1_plus_L2', 'L1'), ('WeightedMCPenalty', 'MCPenalty')):
    for _p in (False, True):
        add_task('C14', f'separable:{_g}(unit)=={_s}[positive={_p}]', sep_pair_task, general=_g, special=_s, positive=_p)


def mcp_large_gamma_task(T):
    """MCP vs L1 with explicit bounds (no limit): 0 <= alpha|t| - MCP(t) <= t^2/(2 gamma) and, for |x| <= alpha gamma,
    |prox_MCP(x) - ST(x, alpha s)| <= |ST(x, alpha s)| * (s/gamma)/(1 - s/gamma)"""
    import z3
    from pv import sym, symrun
    from pv.sproof import check_contract, zpre
    symrun.install()
    M, L = symrun.get(SEP, 'MCPenalty'), symrun.get(SEP, 'L1')
    a, g, x, s, t = (z3.Real(n) for n in ('alpha', 'gamma', 'x', 's', 't'))
    R = sym.SymReal
    pre = zpre([a > 0, g > 0, s > 0, s < g])

    def b_val():
        wv = np.array([R(t)], dtype=object)
        return M(R(a), R(g)).value(wv), L(R(a)).value(np.array([R(t)], dtype=object))

    def post_val(out, p):
        m, l = sym.lift(out[0]), sym.lift(out[1])
        return [('0<=L1-MCP<=t^2/(2gamma)', [], z3.And(l - m >= 0, l - m <= t * t / (2 * g)))]
    check_contract(T, 'value', b_val, pre, post_val, safety=False)

    def b_prox():
        return M(R(a), R(g)).prox_1d(R(x), R(s), 0), L(R(a)).prox_1d(R(x), R(s), 0)

    def post_prox(out, p):
        m, l = sym.lift(out[0]), sym.lift(out[1])
        d = z3.If(m - l >= 0, m - l, l - m)
        al = z3.If(l >= 0, l, -l)
        ax = z3.If(x >= 0, x, -x)
        return [('|prox_MCP-ST|<=|ST|(s/gamma)/(1-s/gamma)', [ax <= a * g], d * (g - s) <= al * s)]
    check_contract(T, 'prox_1d', b_prox, pre, post_prox, safety=False)


add_task('C14', 'separable:MCPenalty(large gamma)~L1', mcp_large_gamma_task)


def datafit_pair_task(T, which):
    import z3
    from pv import sym, symrun
    from pv.sproof import zpre
    from .c06 import Env
    symrun.install()
    ST = 'skglm.datafits.single_task'
    Q, WQ, H = (symrun.get(ST, n) for n in ('Quadratic', 'WeightedQuadratic', 'Huber'))
    R = sym.SymReal
    e = Env(2, 2)
    y, z, w = (lambda: e.sym(e.y)), (lambda: e.sym(e.z)), (lambda: e.sym(e.w))

    def both(mkA, mkB, f, init=True, XA=None, XB=None):
        def run():
            outs = []
            for mk, XX in ((mkA, XA), (mkB, XB)):
                D = mk()
                X = e.symX() if XX is None else XX()
                if init and hasattr(D, 'initialize'):
                    D.initialize(X, y())
                outs.append(f(D, X))
            return tuple(outs)
        return run
    if which == 'unit-weights':
        ones = lambda: np.array([1.0, 1.0], dtype=object)
        A, B = (lambda: WQ(ones())), (lambda: Q())
        pre = []
        for m, f in (('value', lambda D, X: D.value(y(), w(), z())),
                     ('gradient_scalar', lambda D, X: D.gradient_scalar(X, y(), w(), z(), 1)),
                     ('gradient', lambda D, X: D.gradient(X, y(), z())),
                     ('raw_grad', lambda D, X: D.raw_grad(y(), z())),
                     ('raw_hessian', lambda D, X: D.raw_hessian(y(), z())),
                     ('get_lipschitz', lambda D, X: D.get_lipschitz(X, y())),
                     ('intercept_update_step', lambda D, X: D.intercept_update_step(y(), z()))):
            equiv(T, m, both(A, B, f), pre, strength='B')
    elif which == 'huber-small-residuals':
        d = e.delta
        pre = zpre([d > 0] + [z3.And(e.y[i] - e.z[i] < d, e.z[i] - e.y[i] < d) for i in range(2)])
        A, B = (lambda: H(R(d))), (lambda: Q())
        for m, f in (('value', lambda D, X: D.value(y(), w(), z())),
                     ('gradient_scalar', lambda D, X: D.gradient_scalar(X, y(), w(), z(), 1)),
                     ('get_lipschitz', lambda D, X: D.get_lipschitz(X, y())),
                     ('intercept_update_step', lambda D, X: D.intercept_update_step(y(), z()))):
            equiv(T, m, both(A, B, f), pre, strength='B')
    elif which == 'integer-weights':
        # sample weights (2, 1) on rows (r0, r1)  ==  unit weights on rows (r0, r0, r1)
        def XB():
            X = e.symX()
            return np.array([X[0], X[0], X[1]], dtype=object)
        rep = lambda v: np.array([v[0], v[0], v[1]], dtype=object)

        def run(f2, f3):
            def r():
                D2 = WQ(np.array([2.0, 1.0], dtype=object))
                X2 = e.symX()
                D2.initialize(X2, y())
                D3 = Q()
                X3 = XB()
                D3.initialize(X3, rep(y()))
                return f2(D2, X2), f3(D3, X3)
            return r
        equiv(T, 'value', run(lambda D, X: D.value(y(), w(), z()), lambda D, X: D.value(rep(y()), w(), rep(z()))), [], 'B')
        equiv(T, 'gradient_scalar', run(lambda D, X: D.gradient_scalar(X, y(), w(), z(), 1),
                                        lambda D, X: D.gradient_scalar(X, rep(y()), w(), rep(z()), 1)), [], 'B')
        equiv(T, 'get_lipschitz', run(lambda D, X: D.get_lipschitz(X, y()), lambda D, X: D.get_lipschitz(X, rep(y()))), [], 'B')
        equiv(T, 'intercept_update_step', run(lambda D, X: D.intercept_update_step(y(), z()),
                                              lambda D, X: D.intercept_update_step(rep(y()), rep(z()))), [], 'B')


for _w in ('unit-weights', 'huber-small-residuals', 'integer-weights'):
    add_task('C14', f'single_task:{_w}', datafit_pair_task, strength='B', which=_w)


def block_pair_task(T, which):
    import z3
    from pv import sym, symrun
    from pv.sproof import zpre
    from .catalog import objarr
    symrun.install()
    R = sym.SymReal
    a, x, s = z3.Real('alpha'), z3.Real('x'), z3.Real('s')
    w = [z3.Real('w0'), z3.Real('w1')]
    gr = [z3.Real('g0'), z3.Real('g1')]
    wt = [z3.Real('wt0'), z3.Real('wt1')]
    pre = zpre([a > 0, s > 0, wt[0] >= 0, wt[1] >= 0])
    BLK = 'skglm.penalties.block_separable'
    L1, WL1 = symrun.get(SEP, 'L1'), symrun.get(SEP, 'WeightedL1')
    if which == 'singleton-groups':
        WG = symrun.get(BLK, 'WeightedGroupL2')
        gp, gi = np.array([0, 1, 2], dtype=np.int32), np.array([0, 1], dtype=np.int32)
        for pos in (False, True):
            mkA = lambda pos=pos: WG(R(a), objarr([R(wt[0]), R(wt[1])]), gp, gi, pos)
            mkB = lambda pos=pos: WL1(R(a), objarr([R(wt[0]), R(wt[1])]), pos)
            wv = lambda: np.array([R(w[0]), R(w[1])], dtype=object)
            gv = lambda: np.array([R(gr[0]), R(gr[1])], dtype=object)
            equiv(T, f'value[positive={pos}]', lambda: (mkA().value(wv()), mkB().value(wv())),
                  pre + ([w[0] >= 0, w[1] >= 0] if pos else []), 'B')
            equiv(T, f'prox[positive={pos}]', lambda: (mkA().prox_1group(np.array([R(x)], dtype=object), R(s), 1)[0],
                                                       mkB().prox_1d(R(x), R(s), 1)), pre, 'B')
            equiv(T, f'subdiff_distance[positive={pos}]',
                  lambda: (mkA().subdiff_distance(wv(), gv(), np.array([1, 0])), mkB().subdiff_distance(wv(), gv(), np.array([1, 0]))),
                  pre, 'B')
    elif which == 'one-task':
        L21 = symrun.get(BLK, 'L2_1')
        W = lambda: np.array([[R(w[0])], [R(w[1])]], dtype=object)
        G = lambda: np.array([[R(gr[0])], [R(gr[1])]], dtype=object)
        equiv(T, 'value', lambda: (L21(R(a)).value(W()), L1(R(a)).value(np.array([R(w[0]), R(w[1])], dtype=object))), pre, 'B')
        equiv(T, 'prox', lambda: (L21(R(a)).prox_1feat(np.array([R(x)], dtype=object), R(s), 0)[0], L1(R(a)).prox_1d(R(x), R(s), 0)),
              pre, 'B')
        equiv(T, 'subdiff_distance', lambda: (L21(R(a)).subdiff_distance(W(), G(), np.array([1, 0])),
                                              L1(R(a)).subdiff_distance(np.array([R(w[0]), R(w[1])], dtype=object),
                                                                        np.array([R(gr[0]), R(gr[1])], dtype=object), np.array([1, 0]))),
              pre, 'B')
    elif which == 'constant-slope':
        SL = symrun.get('skglm.penalties.non_separable', 'SLOPE')
        n = 2
        xs = [z3.Real(f'x{i}') for i in range(n)]
        xv = lambda: np.array([R(t) for t in xs], dtype=object)
        al = lambda: np.array([R(a)] * n, dtype=object)

        def prox_l1():
            P = L1(R(a))
            return np.array([P.prox_1d(R(t), R(s), 0) for t in xs], dtype=object)
        equiv(T, 'value', lambda: (SL(al()).value(xv()), L1(R(a)).value(xv())), pre, 'B')
        equiv(T, 'prox_vec', lambda: (SL(al()).prox_vec(xv(), R(s)), prox_l1()), pre, 'B')


for _w in ('singleton-groups', 'one-task', 'constant-slope'):
    add_task('C14', f'penalties:{_w}', block_pair_task, strength='B', which=_w)

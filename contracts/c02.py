"""C02 -- converged convex fits reach the reference optimum.

Within reach of this family (DESIGN 4.2): for the convex families, `certificate <= tol` implies an objective gap of at most
tol * (||w - w*||_1 + |b - b*|) (sub-gradient inequality + Hoelder: lemma `certificate_bounds_gap`, machine-checked by the
Lean 4 kernel on every run from lean/CertGap.lean; block form `cert_gap_blocks` for group / multitask certificates), so "reaches the reference optimum" is a
COROLLARY of C01 (certificate valid) and C06/C08/C11 (the certificate is about the documented objective).  What is checked here:

  (i)   the value functions the CODE computes are convex (the lemma needs it): every convex penalty's real value() satisfies the
        convexity inequality value(l a + (1-l) b) <= l value(a) + (1-l) value(b) (scalar per coordinate: unbounded; vector
        penalties: bounded dimension), every convex datafit's real raw_hessian() is >= 0 (2 samples);
  (ii)  datafit-side proximal operators used only by the primal-dual solver: Pinball.prox / SqrtQuadratic.prox are global
        minimisers of 0.5||u - w||^2 + step * F(u), prox_conjugate satisfies Moreau's identity;
  (iii) FISTA, partial correctness: the real FISTA._solve executed with interface-only datafit / penalty (contracts/fista.py):
        it iterates the accelerated prox-gradient map of the same datafit + penalty with step 1 / get_global_lipschitz; a fixed point
        of that map has score 0 (C08's lemma);
  (iv)  the certificate obligations of C01 for the solvers used by the convex estimators (ProxNewton, and the extrapolation
        site obligations of AndersonCD / GroupBCD) are re-discharged in the same run.
  (v)   the path functions (AndersonCD.path, MultiTaskBCD.path: contracts/paths.py) hand every solve a consistent (w, Xw) pair including the
        intercept: the certificate of a grid point is then about the problem of THAT grid point (same obligations as C05).
NOT decided (stated): agreement with sklearn/celer/LP solvers (external code), and that any iterative float algorithm
actually reaches its fixed point (convergence).
"""
import ast
import os

import numpy as np

from pv.core import add_task, describe

describe('C02', level='proof', floor=10,
         explanation='lemma over C01/C06/C08/C11 + convexity obligations + datafit-side prox contracts + FISTA structure',
         assumptions=['certificate => objective gap (sub-gradient inequality + Hoelder bound) is checked by the Lean 4 kernel (lean/CertGap.lean); '
                      'that the hypotheses of the lemma describe the code is what C01 (certificate), C06 (gradient) and C08 (sub-differential) establish; '
                      'first-order convexity inequality of the datafits: from raw_hessian >= 0 (2 samples, bounded)',
                      'convergence of the iterations and agreement with external reference implementations are not decided'])

REPO = os.environ.get('SKGLM_REPO', '/repo')
CONVEX = ['L1[positive=False]', 'L1[positive=True]', 'L1_plus_L2[positive=False]', 'L1_plus_L2[positive=True]',
          'WeightedL1[positive=False]', 'WeightedL1[positive=True]', 'IndicatorBox', 'PositiveConstraint']


def convex_value_task(T, tag):
    import z3
    from pv import sym, symrun
    from pv.sproof import check_contract, zpre
    from .catalog import by_tag
    symrun.install()
    case = by_tag(tag)
    zv = {n: z3.Real(n) for n in case.names()}
    a, b, lam = z3.Real('a'), z3.Real('b'), z3.Real('lam')
    pre = zpre([case.spec(zv).params_ok(), lam >= 0, lam <= 1])
    R = sym.SymReal

    def build():
        pen = case.instantiate({k: R(e) for k, e in zv.items()}, wrap='sym')
        v = lambda t: pen.value(np.array([0.0, t], dtype=object))
        return v(R(a)), v(R(b)), v(R(lam) * R(a) + (1 - R(lam)) * R(b))

    def post(out, p):
        va, vb, vm = out
        if sym.is_inf(va) or sym.is_inf(vb):
            return [('convex[rhs=+inf]', [], z3.BoolVal(True))]
        if sym.is_inf(vm):
            return [('domain-is-convex', [z3.And(lam > 0, lam < 1)], z3.BoolVal(False))]
        return [('value(l*a+(1-l)*b)<=l*value(a)+(1-l)*value(b)', [], sym.lift(vm) <= lam * sym.lift(va) + (1 - lam) * sym.lift(vb))]
    check_contract(T, 'value-is-convex', build, pre, post, safety=False)


for _t in CONVEX:
    add_task('C02', f'separable:{_t}.value/convex', convex_value_task, tag=_t)


def convex_datafit_task(T, name):
    import z3
    from pv import sym, symrun
    from pv.sproof import check_contract, zpre
    from .c06 import Env, BY_NAME
    symrun.install()
    df = BY_NAME[name]
    K = symrun.get(df.module, df.cls)
    e = Env(2, 2)
    pre = zpre(df.pre(e) + df.hess_pre(e))
    check_contract(T, 'raw_hessian>=0', lambda: df.make(K, e).raw_hessian(e.sym(e.y), e.sym(e.z)), pre,
                   lambda out, p: [(f'[{i}]>=0', [], sym.lift(out[i]) >= 0) for i in range(2)], strength='B', safety=False)


for _n in ('Quadratic', 'WeightedQuadratic', 'Logistic', 'Poisson', 'Gamma'):
    add_task('C02', f'single_task:{_n}.raw_hessian>=0', convex_datafit_task, strength='B', name=_n)


def pinball_task(T):
    """Pinball.prox(w, step, y)_i minimises 0.5 (u - w_i)^2 + step * rho_q(y_i - u); prox_conjugate = Moreau; value == sum rho_q"""
    import z3
    from pv import sym, symrun
    from pv.sproof import check_contract, zpre
    symrun.install()
    P = symrun.get('skglm.experimental.quantile_regression', 'Pinball')
    R = sym.SymReal
    q, w, y, s, v, z = (z3.Real(n) for n in ('q', 'w', 'y', 's', 'v', 'z'))
    pre = zpre([q > 0, q < 1, s > 0])
    rho = lambda r: z3.If(r >= 0, q * r, (q - 1) * r)
    L = sym.lift
    check_contract(T, 'value', lambda: P(R(q)).value(np.array([R(y)], dtype=object), None, np.array([R(w)], dtype=object)), pre,
                   lambda out, p: [('==pinball-loss', [], L(out) == rho(y - w))], strength='U')
    check_contract(T, 'prox', lambda: P(R(q)).prox(np.array([R(w)], dtype=object), R(s), np.array([R(y)], dtype=object)), pre,
                   lambda out, p: [('global-min', [], (L(out[0]) - w) * (L(out[0]) - w) / 2 + s * rho(y - L(out[0]))
                                    <= (v - w) * (v - w) / 2 + s * rho(y - v))], strength='U')

    def run():
        D = P(R(q))
        zz = np.array([R(z)], dtype=object)
        yy = np.array([R(y)], dtype=object)
        return D.prox_conjugate(zz, R(s), yy), D.prox(zz / R(s), 1 / R(s), yy)
    check_contract(T, 'prox_conjugate', run, pre,
                   lambda out, p: [('moreau: prox_conj(z,s) == z - s*prox(z/s, 1/s)', [], L(out[0][0]) == z - s * L(out[1][0]))], strength='U')


add_task('C02', 'quantile_regression:Pinball', pinball_task)


def sqrt_quadratic_task(T):
    """SqrtQuadratic: value == ||y - Xw||; prox(w, step, y) minimises 0.5||u - w||^2 + step ||y - u|| (Gram abstraction)"""
    import z3
    from pv import sym, symrun
    from pv.symvec import Gram
    from pv.sproof import check_contract, zpre
    symrun.install()
    SQ = symrun.get('skglm.experimental.sqrt_lasso', 'SqrtQuadratic')
    R = sym.SymReal
    s = z3.Real('s')
    gram = Gram(['d', 'v'])        # d = y - w ; competitor u = y - v
    nv = z3.Real('norm_v')
    pre = zpre([s > 0]) + gram.psd_constraints() + [nv >= 0, nv * nv == gram.ip('v', 'v')]

    def run():
        # prox(w, step, y) = y - BST(y - w, step): call it with y := d + w, w := 0-vector of the abstract space
        zero = gram.zero()
        return SQ().prox(zero, R(s), gram.gen('d')), gram.gen('d').norm()

    def post(out, p):
        u, nd = out                       # u = d - BST(d, s)  (with w = 0, y = d)
        r = gram.gen('d') - u             # = BST(d, s) = y - u
        c = sym.lift(r.coefs.get('d', 0))
        nr = c * nd.e
        d_r = (r - gram.gen('d')).sqnorm().e            # ||u - w||^2 with w = 0  ==  ||d - r||^2
        d_v = (gram.gen('v') - gram.gen('d')).sqnorm().e
        return [('residual-is-a-nonnegative-multiple-of-(y-w)', [], c >= 0),
                ('global-min', [], d_r / 2 + s * nr <= d_v / 2 + s * nv)]
    check_contract(T, 'prox', run, pre, post, strength='U')


add_task('C02', 'sqrt_lasso:SqrtQuadratic.prox', sqrt_quadratic_task)


def solver_sites_task(T, name):
    from .solvers import solver_task
    solver_task(T, name, False, ('C01',))


add_task('C02', 'solvers:ProxNewton._solve[cold]/certificate', solver_sites_task, name='ProxNewton')
add_task('C02', 'solvers:GroupProxNewton._solve[cold]/certificate', solver_sites_task, name='GroupProxNewton')


def solver_site_only_task(T, name):
    """only the obligations raised at program points (extrapolated point consistent and zero outside the working set, accepted only
    if the objective decreased, working set covers the support) -- the return-path certificate obligations are C01's"""
    from .solvers import solver_task
    solver_task(T, name, False, ('SITES',))


add_task('C02', 'solvers:AndersonCD._solve[cold]/extrapolation-sites', solver_site_only_task, name='AndersonCD')
add_task('C02', 'solvers:GroupBCD._solve[cold]/extrapolation-sites', solver_site_only_task, name='GroupBCD')


def lean_lemma_task(T):
    """the gap lemma: `lean lean/CertGap.lean` must be accepted, every theorem present, no `sorry` / extra axiom"""
    import re
    import shutil
    import subprocess
    import time
    here = os.path.dirname(os.path.dirname(os.path.abspath(__file__)))
    src = os.path.join(here, 'lean', 'CertGap.lean')
    text = open(src).read()
    lean = shutil.which('lean')
    if lean is None:
        T.record('lean-available', 'unknown', note='lean not on PATH')
        return
    t0 = time.time()
    r = subprocess.run([lean, src], capture_output=True, text=True, timeout=3000, cwd=os.path.dirname(src))
    secs = time.time() - t0
    out = r.stdout + r.stderr
    allowed = {'propext', 'Classical.choice', 'Quot.sound'}
    for thm in ('cert_gap', 'subgrad_sum', 'certificate_bounds_gap', 'cert_gap_blocks'):
        m = re.search(r"'%s' depends on axioms: \[([^\]]*)\]" % re.escape(thm), out.replace('\n', ' '))
        m0 = re.search(r"'%s' does not depend on any axioms" % re.escape(thm), out)
        stated = re.search(r'^theorem %s\b' % re.escape(thm), text, re.M) is not None
        if r.returncode != 0 or 'error' in out or not stated or (m is None and m0 is None):
            T.record(f'lemma:{thm}', 'unknown' if r.returncode != 0 and 'error' not in out else 'failed', 'U', secs, 'lean4',
                     note=('lean rejected the file: ' + out[:400]) if stated else 'theorem statement missing')
            continue
        axs = set(a.strip() for a in m.group(1).split(',')) if m else set()
        if 'sorryAx' in axs or not axs <= allowed:
            T.record(f'lemma:{thm}', 'failed', 'U', secs, 'lean4', note=f'depends on axioms {sorted(axs)}')
        else:
            T.record(f'lemma:{thm}', 'proved', 'U', secs, 'lean4', note=f'kernel-checked; axioms: {sorted(axs)}')


add_task('C02', 'lemma:certificate=>objective-gap[lean4]', lean_lemma_task)

"""C07 -- proximal operators return a global minimiser of the prox objective.

contract (per penalty P, on the REAL method P.prox_1d):
    requires  hyper-parameters in their documented domain, s > 0, s in the admissible step range
    ensures   r in dom(P)  and  forall v in dom(P): 0.5 (r-x)^2 + s*phi(r) <= 0.5 (v-x)^2 + s*phi(v)
    safety    no division by zero, no sqrt/log outside its domain, no exception
"""
import numpy as np

from pv.core import task, add_task, describe
from . import spec as S
from .catalog import PENALTIES, NUMERIC_PENALTIES, by_tag, J

describe('C07', level='proof', floor=40,
         explanation='prox contracts on the real prox functions; scalar/radial proxes unbounded, vector proxes bounded in dimension',
         assumptions=['block (vector) proxes: Gram abstraction lemma (inner-product data determine the objective)',
                      'prox_05 / prox_2_3 / prox_log_sum: bounded numeric run-time contract on a grid, not a proof'])


def _sym_vals(case):
    import z3
    return {n: z3.Real(n) for n in case.names()}


def prox1d_task(T, tag):
    import z3
    from pv import sym, symrun
    from pv.sproof import check_contract
    symrun.install()
    case = by_tag(tag)
    zv = _sym_vals(case)
    x, s, v = z3.Real('x'), z3.Real('s'), z3.Real('v')
    sp = case.spec(zv)
    pre = [sp.params_ok(), s > 0, sp.step_ok(s)]
    pre = [p if isinstance(p, z3.ExprRef) else z3.BoolVal(bool(p)) for p in pre]

    def build():
        pen = case.instantiate({k: sym.SymReal(e) for k, e in zv.items()}, wrap='sym')
        return pen.prox_1d(sym.SymReal(x), sym.SymReal(s), J)

    def post(out, p):
        r = sym.lift(out)
        dom_r = sp.dom(r)
        cases = []
        if dom_r is not True:
            cases.append(('in-domain', [], dom_r))
        dom_v = sp.dom(v)
        hy = [] if dom_v is True else [dom_v]
        # split on the sign of the competitor: keeps each NRA query small
        for nm, c in (('v>=0', v >= 0), ('v<0', v < 0)):
            cases.append((f'global-min[{nm}]', hy + [c], S.prox_obj(sp, r, x, s) <= S.prox_obj(sp, v, x, s)))
        return cases

    T.cover('requires', pre)
    check_contract(T, 'prox_1d', build, pre, post,
                   replay=dict(fn='contracts.c07:replay_prox1d', args=dict(tag=tag)))


for _c in PENALTIES:
    if _c.cls == 'SCAD':
        continue
    add_task(['C07'], f'{_c.module.split(".")[-1]}:{_c.tag}.prox_1d', prox1d_task, tag=_c.tag)


# ------------------------------------------------------------------ native replay

def _fl(model, name, default=0.0):
    v = model.get(name)
    if v is None:
        return default
    from fractions import Fraction
    try:
        return float(Fraction(v))
    except (ValueError, ZeroDivisionError):
        return float(v.rstrip('?'))


def replay_prox1d(args, model):
    """run the real compiled prox_1d on the model's input and compare with a brute-force minimiser"""
    case = by_tag(args['tag'])
    vals = {n: _fl(model, n, 1.0) for n in case.names()}
    x, s = _fl(model, 'x'), _fl(model, 's', 1.0)
    sp = case.spec(vals)
    try:
        pen = case.native_instance(vals)
        r = float(pen.prox_1d(x, s, J))
    except Exception as ex:      # noqa
        return dict(confirmed=True, detail=f'real prox_1d raised {type(ex).__name__}: {ex}', inputs=dict(vals, x=x, s=s))
    if not np.isfinite(r):
        return dict(confirmed=True, detail=f'non-finite result {r}', inputs=dict(vals, x=x, s=s))
    if not sp.dom(r):
        return dict(confirmed=True, detail=f'result {r} outside the domain', inputs=dict(vals, x=x, s=s))
    obj = lambda u: 0.5 * (u - x) ** 2 + s * sp.phi(u)
    cands = [_fl(model, 'v', 0.0), 0.0, x] + list(np.linspace(-abs(x) - 1, abs(x) + 1, 4001))
    cands = [c for c in cands if sp.dom(c)]
    best = min(cands, key=obj)
    gap = obj(r) - obj(best)
    tol = 1e-9 * (1 + abs(obj(best)))
    return dict(confirmed=bool(gap > tol), detail=f'prox={r} obj={obj(r)} ; competitor v={best} obj={obj(best)} ; gap={gap}',
                inputs=dict(vals, x=x, s=s))

"""C07 -- proximal operators return a global minimiser of the prox objective.

contract (per penalty P, on the REAL method P.prox_1d):
    requires  hyper-parameters in their documented domain, s > 0, s in the admissible step range
    ensures   r in dom(P)  and  forall v in dom(P): 0.5 (r-x)^2 + s*phi(r) <= 0.5 (v-x)^2 + s*phi(v)
    safety    no division by zero, no sqrt/log outside its domain, no exception
"""
import numpy as np

from pv.core import task, add_task, describe
from . import spec as S
from .catalog import PENALTIES, NUMERIC_PENALTIES, by_tag, J

describe('C07', level='proof', floor=40,
         explanation='prox contracts on the real prox functions; scalar/radial proxes unbounded, vector proxes bounded in dimension',
         assumptions=['block (vector) proxes: Gram abstraction lemma (inner-product data determine the objective)',
                      'prox_05 / prox_2_3 / prox_log_sum: bounded numeric run-time contract on a grid, not a proof'])


def _sym_vals(case):
    import z3
    return {n: z3.Real(n) for n in case.names()}


def prox1d_task(T, tag):
    import z3
    from pv import sym, symrun
    from pv.sproof import check_contract
    symrun.install()
    case = by_tag(tag)
    zv = _sym_vals(case)
    x, s, v = z3.Real('x'), z3.Real('s'), z3.Real('v')
    sp = case.spec(zv)
    pre = [sp.params_ok(), s > 0, sp.step_ok(s)]
    pre = [p if isinstance(p, z3.ExprRef) else z3.BoolVal(bool(p)) for p in pre]

    def build():
        pen = case.instantiate({k: sym.SymReal(e) for k, e in zv.items()}, wrap='sym')
        return pen.prox_1d(sym.SymReal(x), sym.SymReal(s), J)

    def post(out, p):
        r = sym.lift(out)
        dom_r = sp.dom(r)
        cases = []
        if dom_r is not True:
            cases.append(('in-domain', [], dom_r))
        dom_v = sp.dom(v)
        hy = [] if dom_v is True else [dom_v]
        # split on the sign of the competitor: keeps each NRA query small
        for nm, c in (('v>=0', v >= 0), ('v<0', v < 0)):
            cases.append((f'global-min[{nm}]', hy + [c], S.prox_obj(sp, r, x, s) <= S.prox_obj(sp, v, x, s)))
        return cases

    T.cover('requires', pre)
    check_contract(T, 'prox_1d', build, pre, post,
                   replay=dict(fn='contracts.c07:replay_prox1d', args=dict(tag=tag)))


for _c in PENALTIES:
    if _c.cls == 'SCAD':
        continue
    add_task(['C07'], f'{_c.module.split(".")[-1]}:{_c.tag}.prox_1d', prox1d_task, tag=_c.tag)


# ------------------------------------------------------------------ native replay

def _fl(model, name, default=0.0):
    v = model.get(name)
    if v is None:
        return default
    from fractions import Fraction
    try:
        return float(Fraction(v))
    except (ValueError, ZeroDivisionError):
        return float(v.rstrip('?'))


def replay_prox1d(args, model):
    """run the real compiled prox_1d on the model's input and compare with a brute-force minimiser"""
    case = by_tag(args['tag'])
    vals = {n: _fl(model, n, 1.0) for n in case.names()}
    x, s = _fl(model, 'x'), _fl(model, 's', 1.0)
    sp = case.spec(vals)
    try:
        pen = case.native_instance(vals)
        r = float(pen.prox_1d(x, s, J))
    except Exception as ex:      # noqa
        return dict(confirmed=True, detail=f'real prox_1d raised {type(ex).__name__}: {ex}', inputs=dict(vals, x=x, s=s))
    if not np.isfinite(r):
        return dict(confirmed=True, detail=f'non-finite result {r}', inputs=dict(vals, x=x, s=s))
    if not sp.dom(r):
        return dict(confirmed=True, detail=f'result {r} outside the domain', inputs=dict(vals, x=x, s=s))
    obj = lambda u: 0.5 * (u - x) ** 2 + s * sp.phi(u)
    cands = [_fl(model, 'v', 0.0), 0.0, x] + list(np.linspace(-abs(x) - 1, abs(x) + 1, 4001))
    cands = [c for c in cands if sp.dom(c)]
    best = min(cands, key=obj)
    gap = obj(r) - obj(best)
    tol = 1e-9 * (1 + abs(obj(best)))
    return dict(confirmed=bool(gap > tol), detail=f'prox={r} obj={obj(r)} ; competitor v={best} obj={obj(best)} ; gap={gap}',
                inputs=dict(vals, x=x, s=s))


def _scad_pieces(a, g, av):
    """the documented SCAD pieces at |t| = av (explicit piece: no If in the query)"""
    import z3
    return [('lin', av <= a, a * av),
            ('quad', z3.And(av > a, av <= a * g), (2 * a * g * av - av * av - a * a) / (2 * (g - 1))),
            ('flat', av > a * g, a * a * (g + 1) / 2)]


def scad_contract(a, g, r, x, s, v):
    """contract of prox_funcs:prox_SCAD(x, s, alpha, gamma) -> r, stated for a competitor v.
    requires alpha > 0, gamma > 2, 0 < s < gamma - 1
    ensures  sign(r) agrees with sign(x)  and  obj(r) <= obj(v)"""
    import z3
    sp = S.SCADSpec(a, g)
    pre = [a > 0, g > 2, s > 0, s < g - 1]
    sign = z3.And(z3.Implies(x >= 0, r >= 0), z3.Implies(x <= 0, r <= 0))
    gmin = S.prox_obj(sp, r, x, s) <= S.prox_obj(sp, v, x, s)
    return pre, sign, gmin, sp


def scad_task(T, shard):
    """prox_funcs:prox_SCAD against `scad_contract`: the code picks the best of three candidates; the
    obligation is that it beats every v.  split by code path x spec pieces of v and r x signs"""
    import z3
    from pv import sym, symrun
    from pv.sproof import check_contract
    symrun.install()
    prox_SCAD = symrun.get('skglm.utils.prox_funcs', 'prox_SCAD')
    a, g = z3.Real('alpha'), z3.Real('gamma')
    x, s, v = z3.Real('x'), z3.Real('s'), z3.Real('v')
    pre, _, _, sp = scad_contract(a, g, z3.Real('r'), x, s, v)

    def build():
        return prox_SCAD(sym.SymReal(x), sym.SymReal(s), sym.SymReal(a), sym.SymReal(g))

    def post(out, p):
        r = sym.lift(out)
        cases = [('sign-preserved', [], scad_contract(a, g, r, x, s, v)[1])]
        for sx, cx in (('x>=0', x >= 0), ('x<0', x < 0)):
            for sg, c, absv in (('v>=0', v >= 0, v), ('v<0', v < 0, -v)):
                if sx[1:] != sg[1:]:
                    # competitor on the other side of 0 than x: dominated by its mirror image -v, for which
                    # the obligation is the same-sign case of this very path (used here as a lemma instance)
                    # (phi(v) = phi(-v) is the separate obligation `spec-even`; phi values abstracted: the
                    #  implication holds for every value of them, in particular the true ones)
                    Pr, Pv = z3.Real('phi_r'), z3.Real('phi_v')
                    o_r = (r - x) * (r - x) / 2 + s * Pr
                    cases.append((f'global-min[{sx},{sg},mirror]',
                                  [cx, c, o_r <= (-v - x) * (-v - x) / 2 + s * Pv],
                                  o_r <= (v - x) * (v - x) / 2 + s * Pv))
                    continue
                for nm, pc, phiv in _scad_pieces(a, g, absv):
                    for rs, rc, absr in (('r>=0', r >= 0, r), ('r<0', r < 0, -r)):
                        for rn, rpc, phir in _scad_pieces(a, g, absr):
                            cases.append((f'global-min[{sx},{sg},v-{nm},{rs},r-{rn}]', [cx, c, pc, rc, rpc],
                                          (r - x) * (r - x) / 2 + s * phir <= (v - x) * (v - x) / 2 + s * phiv))
        return cases

    if shard[0] == 0:
        T.cover('requires', pre)
        T.prove('spec-even', pre, sp.phi(v) == sp.phi(-v))
    check_contract(T, 'ensures', build, pre, post, shard=shard,
                   replay=dict(fn='contracts.c07:replay_prox1d', args=dict(tag='SCAD')))


for _i in range(16):
    add_task(['C07'], 'prox_funcs:prox_SCAD', scad_task, shard=(_i, 16))


class stubbed:
    """modular verification: inside the block, `module.name` is replaced by a stub that returns a fresh
    symbolic result constrained ONLY by the callee's contract (instantiated at the given terms)"""

    def __init__(self, module, name, stub):
        self.module, self.name, self.stub = module, name, stub

    def __enter__(self):
        self.orig = getattr(self.module, self.name)
        setattr(self.module, self.name, self.stub)

    def __exit__(self, *a):
        setattr(self.module, self.name, self.orig)


def scad_stub(inst_terms, calls):
    """stub of prox_SCAD by contract; the forall-competitor clause is instantiated at `inst_terms`"""
    import z3
    from pv import sym

    def stub(value, stepsize, alpha, gamma):
        c = sym.ctx()
        x, s, a, g = (sym.lift(t) for t in (value, stepsize, alpha, gamma))
        r = sym.fresh('scad_r')
        pre, sign, _, _ = scad_contract(a, g, r, x, s, x)
        c.safety.append(('callee-requires:prox_SCAD', list(c.pc), list(c.defs), z3.And(*pre)))
        c.defs.append(sign)
        for t in inst_terms:
            c.defs.append(scad_contract(a, g, r, x, s, t)[2])
        calls.append((x, s, a, g, r))
        c.notes.append(('call', 'prox_SCAD', r))
        return sym.SymReal(r)
    return stub


def scad_prox1d_task(T):
    """SCAD.prox_1d is a caller of prox_SCAD: checked against the callee's CONTRACT, not its body"""
    import z3
    from pv import sym, symrun
    from pv.sproof import check_contract
    symrun.install()
    import skglm.penalties.separable as sepmod
    case = by_tag('SCAD')
    zv = _sym_vals(case)
    x, s, v = z3.Real('x'), z3.Real('s'), z3.Real('v')
    sp = case.spec(zv)
    pre = [sp.params_ok(), s > 0, sp.step_ok(s), zv['alpha'] > 0]
    calls = []

    def build():
        with stubbed(sepmod, 'prox_SCAD', scad_stub([v], calls)):
            pen = case.instantiate({k: sym.SymReal(e) for k, e in zv.items()}, wrap='sym')
            return pen.prox_1d(sym.SymReal(x), sym.SymReal(s), J)

    def post(out, p):
        r = sym.lift(out)
        return [('global-min', [], S.prox_obj(sp, r, x, s) <= S.prox_obj(sp, v, x, s))]

    T.cover('requires', pre)
    check_contract(T, 'prox_1d', build, pre, post,
                   replay=dict(fn='contracts.c07:replay_prox1d', args=dict(tag='SCAD')))
    if not calls:
        T.failed('prox_1d/calls-prox_SCAD', 'SCAD.prox_1d no longer calls prox_SCAD: contract target drift')


add_task(['C07'], 'separable:SCAD.prox_1d', scad_prox1d_task)


def mcp_contract(a, g, positive, weight, r, x, s, v):
    """contract of prox_funcs:prox_MCP(x, s, alpha, gamma, positive, weight) -> r for a competitor v.
    requires alpha >= 0, gamma > 0, weight >= 0, s > 0, weight * s < gamma
    ensures  r in dom, sign(r) agrees with sign(x), obj(r) <= obj(v) for v in dom"""
    import z3
    sp = S.MCPSpec(a, g, positive, weight)
    pre = [a >= 0, g > 0, weight >= 0, s > 0, weight * s < g]
    sign = z3.And(z3.Implies(x >= 0, r >= 0), z3.Implies(x <= 0, r <= 0))
    dom = sp.dom(r)
    dom = z3.BoolVal(True) if dom is True else dom
    dv = sp.dom(v)
    gmin = S.prox_obj(sp, r, x, s) <= S.prox_obj(sp, v, x, s)
    if dv is not True:
        gmin = z3.Implies(dv, gmin)
    return pre, z3.And(sign, dom), gmin, sp


def mcp_fn_task(T, positive):
    import z3
    from pv import sym, symrun
    from pv.sproof import check_contract
    symrun.install()
    prox_MCP = symrun.get('skglm.utils.prox_funcs', 'prox_MCP')
    a, g, w = z3.Real('alpha'), z3.Real('gamma'), z3.Real('weight')
    x, s, v = z3.Real('x'), z3.Real('s'), z3.Real('v')
    pre = mcp_contract(a, g, positive, w, z3.Real('r'), x, s, v)[0]

    def build():
        return prox_MCP(sym.SymReal(x), sym.SymReal(s), sym.SymReal(a), sym.SymReal(g), positive, sym.SymReal(w))

    def post(out, p):
        r = sym.lift(out)
        _, sd, gm, _ = mcp_contract(a, g, positive, w, r, x, s, v)
        return [('sign-and-domain', [], sd), ('global-min[v>=0]', [v >= 0], gm), ('global-min[v<0]', [v < 0], gm)]

    T.cover('requires', pre)
    check_contract(T, 'ensures', build, pre, post,
                   replay=dict(fn='contracts.c07:replay_prox1d',
                               args=dict(tag=f'WeightedMCPenalty[positive={positive}]', weight_name='weight')))


for _pos in (False, True):
    add_task(['C07'], f'prox_funcs:prox_MCP[positive={_pos}]', mcp_fn_task, positive=_pos)


def mcp_stub(inst_terms, calls):
    import z3
    from pv import sym

    def stub(value, stepsize, alpha, gamma, positive=False, weight=1.):
        c = sym.ctx()
        x, s, a, g, w = (sym.lift(t) for t in (value, stepsize, alpha, gamma, weight))
        r = sym.fresh('mcp_r')
        pre, sd, _, _ = mcp_contract(a, g, bool(positive), w, r, x, s, x)
        c.safety.append(('callee-requires:prox_MCP', list(c.pc), list(c.defs), z3.And(*pre)))
        c.defs.append(sd)
        for t in inst_terms:
            c.defs.append(mcp_contract(a, g, bool(positive), w, r, x, s, t)[2])
        calls.append((x, s, a, g, r))
        c.notes.append(('call', 'prox_MCP', r))
        return sym.SymReal(r)
    return stub


# ------------------------------------------------------------------ block proxes, Gram abstraction [U]

BLOCK = {
    # tag: (module, class, real-valued params, flags, radial spec builder psi(norm))
    'L2_1': ('skglm.penalties.block_separable', 'L2_1', ['alpha'], lambda v: S.L1Spec(v['alpha'])),
    'BlockMCPenalty': ('skglm.penalties.block_separable', 'BlockMCPenalty', ['alpha', 'gamma'],
                       lambda v: S.MCPSpec(v['alpha'], v['gamma'])),
    'BlockSCAD': ('skglm.penalties.block_separable', 'BlockSCAD', ['alpha', 'gamma'],
                  lambda v: S.SCADSpec(v['alpha'], v['gamma'])),
}


def block_prox_task(T, tag):
    """prox_1feat(x, s, j) on an abstract vector x: global minimiser of 0.5||u-x||^2 + s*psi(||u||)
    against an arbitrary competitor v of an arbitrary-dimensional space (Gram abstraction)"""
    import z3
    from pv import sym, symrun
    from pv.symvec import Gram
    from pv.sproof import check_contract
    symrun.install()
    import importlib
    mod, cls, params, mk = BLOCK[tag]
    zv = {n: z3.Real(n) for n in params}
    sp = mk(zv)
    s = z3.Real('s')
    gram = Gram(['x', 'v'])
    nv = z3.Real('norm_v')
    pre = [sp.params_ok(), s > 0, sp.step_ok(s)] + gram.psd_constraints() + [nv >= 0, nv * nv == gram.ip('v', 'v')]
    if tag == 'BlockSCAD':
        pre.append(zv['alpha'] > 0)
    from pv.sproof import zpre
    pre = zpre(pre)
    pre_scalar = zpre([sp.params_ok(), s > 0, sp.step_ok(s)] + ([zv['alpha'] > 0] if tag == 'BlockSCAD' else []))

    t = z3.Real('t')
    d_v = (gram.gen('v') - gram.gen('x')).sqnorm().e
    Gxx = gram.ip('x', 'x')

    blk = importlib.import_module(mod)
    calls = []

    def build():
        # modular: the scalar proxes are replaced by their contracts (instantiated at the competitor norm t)
        with stubbed(blk, 'prox_SCAD', scad_stub([t], calls)), stubbed(blk, 'prox_MCP', mcp_stub([t], calls)):
            pen = getattr(blk, cls)(**{k: sym.SymReal(e) for k, e in zv.items()})
            out = pen.prox_1feat(gram.gen('x'), sym.SymReal(s), 0)
            # ||x|| as the code's own let-variable (sqrt terms are shared per path)
            return out, gram.gen('x').norm()

    def pieces(av):
        a, g = zv['alpha'], zv.get('gamma')
        if tag != 'BlockSCAD':
            return [('any', z3.BoolVal(True), sp.phi(av))]
        return [('lin', av <= a, a * av),
                ('quad', z3.And(av > a, av <= a * g), (2 * a * g * av - av * av - a * a) / (2 * (g - 1))),
                ('flat', av > a * g, a * a * (g + 1) / 2)]

    def post(out, p):
        out, nxs = out
        nx = nxs.e
        r = out if not isinstance(out, (int, float)) else gram.zero()
        extra = [k for k in r.coefs if k != 'x']
        c = sym.lift(r.coefs.get('x', 0))
        d_r = (r - gram.gen('x')).sqnorm().e
        nr = c * nx
        cases = [('result-is-a-nonnegative-multiple-of-x', [], z3.And(c >= 0, z3.BoolVal(not extra))),
                 ('norm-of-result', [], z3.And(r.sqnorm().e == nr * nr, nr >= 0)),
                 ('collinear', [], d_r == (nr - nx) * (nr - nx))]
        callee = [n for n in p.notes if n[0] == 'call']
        if callee:
            # the scalar prox was called (by contract): ||result|| is the callee's result, and the radial
            # obligation is the callee's ensures instantiated at t
            r0 = callee[-1][2]
            cases.append(('norm-of-result-is-scalar-prox', [], nr == r0))
            cases.append(('radial-min', [t >= 0],
                          (r0 - nx) * (r0 - nx) / 2 + s * sp.phi(r0) <= (t - nx) * (t - nx) / 2 + s * sp.phi(t),
                          dict(pre=pre_scalar)))
        else:
            cases.append(('radial-min', [t >= 0],
                          (nr - nx) * (nr - nx) / 2 + s * sp.phi(nr) <= (t - nx) * (t - nx) / 2 + s * sp.phi(t),
                          dict(pre=pre_scalar)))
        return cases

    nx = z3.Real('norm_x')
    pre_l = pre + [nx >= 0, nx * nx == Gxx]
    T.cover('requires', pre)
    # path-independent lemmas, machine-checked here: Cauchy-Schwarz from the PSD Gram matrix, and the
    # composition  collinear + radial-min(t := ||v||) + Cauchy-Schwarz  =>  global minimality
    T.prove('lemma:cauchy-schwarz', pre_l, d_v >= (nv - nx) * (nv - nx))
    Dr, Dv, Nr, Pr, Pv = z3.Reals('Dr Dv Nr Pr Pv')
    T.prove('lemma:compose', [s > 0, Dr == (Nr - nx) * (Nr - nx), Dv >= (nv - nx) * (nv - nx),
                              (Nr - nx) * (Nr - nx) / 2 + s * Pr <= (nv - nx) * (nv - nx) / 2 + s * Pv],
            Dr / 2 + s * Pr <= Dv / 2 + s * Pv)
    check_contract(T, 'prox_1feat', build, pre, post,
                   replay=dict(fn='contracts.c07:replay_block_prox', args=dict(tag=tag)))


for _t in BLOCK:
    add_task(['C07'], f'block_separable:{_t}.prox_1feat', block_prox_task, tag=_t)


def _gram_vectors(model, names):
    """concrete vectors with the model's Gram matrix (eigen-decomposition), dimension len(names)"""
    n = len(names)
    G = np.zeros((n, n))
    for i, a in enumerate(names):
        for j, b in enumerate(names):
            G[i, j] = _fl(model, f'G_{a}_{b}' if i <= j else f'G_{b}_{a}', 0.0)
    w, U = np.linalg.eigh((G + G.T) / 2)
    V = (U * np.sqrt(np.maximum(w, 0))).T      # columns = vectors
    return [np.ascontiguousarray(V[:, i]) for i in range(n)]


def replay_block_prox(args, model):
    import importlib
    from skglm.utils.jit_compilation import compiled_clone
    mod, cls, params, mk = BLOCK[args['tag']]
    vals = {n: _fl(model, n, 1.0) for n in params}
    s = _fl(model, 's', 1.0)
    x, v = _gram_vectors(model, ['x', 'v'])
    x = np.concatenate([x, [0.0]])
    v = np.concatenate([v, [0.0]])
    sp = mk(vals)
    inputs = dict(vals, s=s, x=x.tolist(), v=v.tolist())
    try:
        pen = compiled_clone(getattr(importlib.import_module(mod), cls)(**vals))
        r = np.asarray(pen.prox_1feat(x.copy(), s, 0), dtype=float)
    except Exception as ex:      # noqa
        return dict(confirmed=True, detail=f'real prox_1feat raised {type(ex).__name__}: {ex}', inputs=inputs)
    if not np.all(np.isfinite(r)):
        return dict(confirmed=True, detail=f'non-finite result {r}', inputs=inputs)
    obj = lambda u: 0.5 * float(np.sum((u - x) ** 2)) + s * sp.phi(float(np.linalg.norm(u)))
    cands = [v, np.zeros_like(x), x] + [t * x for t in np.linspace(0, 1.5, 301)]
    best = min(cands, key=obj)
    gap = obj(r) - obj(best)
    return dict(confirmed=bool(gap > 1e-9 * (1 + abs(obj(best)))), detail=f'prox={r} obj={obj(r)}; competitor {best} obj={obj(best)}; gap={gap}',
                inputs=inputs)


# ------------------------------------------------------------------ vector proxes, bounded in dimension (B)

def slope_task(T, n):
    """SLOPE.prox_vec: global minimiser of 0.5||u-x||^2 + s * sum_i alphas_i |u|_(i) (sorted-l1), n entries"""
    import itertools
    import z3
    from pv import sym, symrun
    from pv.sproof import check_contract, zpre
    symrun.install()
    SL = symrun.get('skglm.penalties.non_separable', 'SLOPE')
    R = sym.SymReal
    x = [z3.Real(f'x{i}') for i in range(n)]
    v = [z3.Real(f'v{i}') for i in range(n)]
    al = [z3.Real(f'al{i}') for i in range(n)]
    s = z3.Real('s')
    pre = zpre([s > 0] + [al[i] >= al[i + 1] for i in range(n - 1)] + [al[-1] >= 0])
    # canonical orthant x_0 >= ... >= x_{n-1} >= 0; the other orthants/orderings follow from the symmetry of the
    # objective (trusted lemma) and the equivariance of the code, which is the separate obligation `equivariant`
    pre_c = pre + [x[i] >= x[i + 1] for i in range(n - 1)] + [x[-1] >= 0]

    def sorted_l1(u):
        """sum_i al_i |u|_(i) = max over permutations of sum_i al_i |u_pi(i)| (rearrangement inequality: al sorted)"""
        au = [z3.If(t >= 0, t, -t) for t in u]
        best = None
        for perm in itertools.permutations(range(n)):
            val = z3.Sum([al[i] * au[perm[i]] for i in range(n)])
            best = val if best is None else z3.If(val >= best, val, best)
        return best

    def obj(u):
        return z3.Sum([(u[i] - x[i]) * (u[i] - x[i]) for i in range(n)]) / 2 + s * sorted_l1(u)

    def build():
        pen = SL(np.array([R(a) for a in al], dtype=object))
        return pen.prox_vec(np.array([R(t) for t in x], dtype=object), R(s))

    def post(out, p):
        r = [sym.lift(t) for t in out]
        # split the competitor by sign pattern and by the ordering of its magnitudes: sorted-l1 becomes linear
        cases = []
        sq = lambda u: z3.Sum([(u[i] - x[i]) * (u[i] - x[i]) for i in range(n)]) / 2
        for signs in itertools.product((1, -1), repeat=n):
            av = [v[i] if signs[i] == 1 else -v[i] for i in range(n)]
            sc = [v[i] >= 0 if signs[i] == 1 else v[i] < 0 for i in range(n)]
            for perm in itertools.permutations(range(n)):
                oc = [av[perm[i]] >= av[perm[i + 1]] for i in range(n - 1)]
                lin = z3.Sum([al[i] * av[perm[i]] for i in range(n)])
                tag = ''.join('+' if t == 1 else '-' for t in signs) + ''.join(map(str, perm))
                cases.append((f'global-min[v:{tag}]', sc + oc, obj(r) <= sq(v) + s * lin))
        return cases
    T.cover('requires', pre_c)
    check_contract(T, f'prox_vec[n={n}]', build, pre_c, post, strength='B',
                   replay=dict(fn='contracts.c07:replay_slope', args=dict(n=n)))

    # equivariance under sign flips and permutations of the input: prox_vec(T x) == T prox_vec(x)
    for signs in itertools.product((1, -1), repeat=n):
        for perm in itertools.permutations(range(n)):
            if all(t == 1 for t in signs) and list(perm) == list(range(n)):
                continue

            def build2(signs=signs, perm=perm):
                pen = SL(np.array([R(a) for a in al], dtype=object))
                base = pen.prox_vec(np.array([R(t) for t in x], dtype=object), R(s))
                tx = np.array([R(signs[i] * x[perm[i]]) for i in range(n)], dtype=object)
                return base, pen.prox_vec(tx, R(s))
            tag = ''.join('+' if t == 1 else '-' for t in signs) + ''.join(map(str, perm))
            check_contract(T, f'prox_vec[n={n}]/equivariant[{tag}]', build2, pre_c,
                           lambda out, p, signs=signs, perm=perm: [
                               ('prox(Tx)==T.prox(x)', [], z3.And(*[sym.lift(out[1][i]) == signs[i] * sym.lift(out[0][perm[i]])
                                                                  for i in range(n)]))],
                           strength='B', safety=False, replay=dict(fn='contracts.c07:replay_slope', args=dict(n=n)))


add_task('C07', 'non_separable:SLOPE.prox_vec[n=2]', slope_task, strength='B', n=2)
add_task('C07', 'non_separable:SLOPE.prox_vec[n=3]', slope_task, strength='B', tier='thorough', n=3)


def replay_slope(args, model):
    import itertools
    from skglm.penalties.non_separable import SLOPE
    from skglm.utils.jit_compilation import compiled_clone
    n = args['n']
    x = np.array([_fl(model, f'x{i}') for i in range(n)])
    al = np.array([_fl(model, f'al{i}', 1.0) for i in range(n)])
    s = _fl(model, 's', 1.0)
    v = np.array([_fl(model, f'v{i}') for i in range(n)])
    obj = lambda u: 0.5 * np.sum((u - x) ** 2) + s * np.sum(np.sort(np.abs(u))[::-1] * al)
    r = np.asarray(compiled_clone(SLOPE(al)).prox_vec(x.copy(), s))
    cands = [v, np.zeros(n), x] + [np.array(c) for c in itertools.product(np.linspace(-2, 2, 41), repeat=n)] if n <= 2 else [v, np.zeros(n), x]
    best = min(cands, key=obj)
    gap = obj(r) - obj(best)
    return dict(confirmed=bool(gap > 1e-9 * (1 + abs(obj(best)))), detail=f'prox={r.tolist()} obj={obj(r)}; competitor {best.tolist()} obj={obj(best)}',
                inputs=dict(x=x.tolist(), alphas=al.tolist(), s=s))


def numeric_prox_task(T, which):
    """bounded numeric run-time contract (grid) for the three transcendental scalar proxes: the value returned by the
    REAL function must minimise the prox objective against a brute-force search on a fine grid"""
    from pv import symrun
    symrun.install()
    import skglm.utils.prox_funcs as PF
    rng = np.random.RandomState(0)
    n_eval = n_bad = 0
    worst = None
    if which == 'prox_log_sum':
        fn = lambda x, u, eps: PF.prox_log_sum(x, u, eps)
        phi = lambda t, u, eps: u * np.log1p(np.abs(t) / eps)       # u = alpha * stepsize
        params = [(a, e) for a in (0.05, 0.3, 1.0, 2.5) for e in (0.1, 0.5, 1.0, 2.0)]
    elif which == 'prox_05':
        fn = lambda x, u, eps: PF.prox_05(x, u)
        phi = lambda t, u, eps: u * np.sqrt(np.abs(t))
        params = [(u, None) for u in (0.05, 0.3, 1.0, 2.5)]
    else:
        fn = lambda x, u, eps: PF.prox_2_3(x, u)
        phi = lambda t, u, eps: u * np.abs(t) ** (2. / 3.)
        params = [(u, None) for u in (0.05, 0.3, 1.0, 2.5)]
    for u, eps in params:
        xs = np.concatenate([np.linspace(-6, 6, 241), rng.uniform(-6, 6, 60)])
        grid = np.linspace(-8, 8, 32001)
        pg = phi(grid, u, eps)
        for x in xs:
            try:
                r = float(fn(float(x), u, eps))
            except Exception as ex:     # noqa
                n_bad += 1
                worst = worst or dict(x=float(x), u=u, eps=eps, detail=f'raised {type(ex).__name__}: {ex}')
                continue
            n_eval += 1
            o_r = 0.5 * (r - x) ** 2 + phi(r, u, eps)
            og = 0.5 * (grid - x) ** 2 + pg
            k = int(np.argmin(og))
            if not np.isfinite(r) or o_r > og[k] + 1e-6 * (1 + abs(og[k])):
                n_bad += 1
                if worst is None or (o_r - og[k]) > worst.get('excess', 0):
                    worst = dict(x=float(x), u=u, eps=eps, prox=r, obj=float(o_r), better=float(grid[k]), better_obj=float(og[k]),
                                 excess=float(o_r - og[k]))
    if n_bad:
        T.failed(f'{which}/minimises-on-grid', f'{n_bad} of {n_eval} grid points are not minimisers; worst: {worst}', strength='N',
                 replay=dict(fn='contracts.c07:replay_numeric', args=dict(which=which, worst=worst)), model=worst)
    else:
        T.ok(f'{which}/minimises-on-grid', note=f'{n_eval} grid evaluations', strength='N', backend='grid')


for _w in ('prox_log_sum', 'prox_05', 'prox_2_3'):
    add_task('C07', f'prox_funcs:{_w}[numeric]', numeric_prox_task, strength='N', which=_w)


def replay_numeric(args, model):
    import skglm.utils.prox_funcs as PF
    w = args['worst']
    which = args['which']
    x, u, eps = w['x'], w['u'], w.get('eps')
    try:
        r = float(PF.prox_log_sum(x, u, eps) if which == 'prox_log_sum' else (PF.prox_05(x, u) if which == 'prox_05' else PF.prox_2_3(x, u)))
    except Exception as ex:     # noqa
        return dict(confirmed=True, detail=f'raised {type(ex).__name__}: {ex}', inputs=w)
    phi = (lambda t: u * np.log1p(abs(t) / eps)) if which == 'prox_log_sum' else \
        ((lambda t: u * np.sqrt(abs(t))) if which == 'prox_05' else (lambda t: u * abs(t) ** (2. / 3.)))
    o = lambda t: 0.5 * (t - x) ** 2 + phi(t)
    b = w.get('better', 0.0)
    return dict(confirmed=bool(not np.isfinite(r) or o(r) > o(b) + 1e-6 * (1 + abs(o(b)))),
                detail=f'compiled prox={r} obj={o(r)}; better point {b} obj={o(b)}', inputs=w)


def bst_positive_task(T, d):
    """prox_funcs.BST(x, u, positive=True) against its documented spec function (d entries, all sign patterns):
    on S = {j : x_j > 0}:  max(1 - u / ||x_S||, 0) x_S ; zero elsewhere.  (That this formula is the global minimiser of
    0.5||v - x||^2 + u||v|| over v >= 0 is the block-prox contract of WeightedGroupL2(positive=True), thorough tier.)"""
    import z3
    from pv import sym, symrun
    from pv.sproof import check_contract, zpre
    symrun.install()
    BST = symrun.get('skglm.utils.prox_funcs', 'BST')
    R = sym.SymReal
    L = sym.lift
    x = [z3.Real(f'x{i}') for i in range(d)]
    u = z3.Real('u')
    nS = z3.Real('norm_xS')
    sq = sum((z3.If(t > 0, t * t, 0) for t in x), z3.RealVal(0))
    pre = zpre([u >= 0, nS >= 0, nS * nS == sq])

    def post(out, p):
        cs = []
        for i in range(d):
            xp = z3.If(x[i] > 0, x[i], 0)
            cs.append((f'[{i}]==max(1-u/||x_S||,0)*max(x_i,0)', [], L(out[i]) == z3.If(nS <= u, 0, (1 - u / nS) * xp)))
        return cs
    check_contract(T, 'BST[positive=True]', lambda: BST(np.array([R(t) for t in x], dtype=object), R(u), True), pre, post,
                   strength='B', replay=dict(fn='contracts.c07:replay_bst_positive', args=dict(d=d)))


add_task(['C07', 'C02', 'C04'], 'prox_funcs:BST[positive=True,d=2]', bst_positive_task, strength='B', d=2)
add_task(['C07', 'C02', 'C04'], 'prox_funcs:BST[positive=True,d=3]', bst_positive_task, strength='B', d=3)


def replay_bst_positive(args, model):
    from skglm.utils.prox_funcs import BST
    d = args['d']
    x = np.array([_fl(model, f'x{i}', 0.) for i in range(d)])
    u = _fl(model, 'u', 0.)
    try:
        got = BST(x, u, True)
    except Exception as ex:      # noqa
        return dict(confirmed=True, detail=f'BST raised {type(ex).__name__}: {ex}', inputs=dict(x=x.tolist(), u=u))
    xp = np.maximum(x, 0.)
    n = np.linalg.norm(xp)
    exp = np.zeros(d) if n <= u else (1 - u / n) * xp
    bad = not np.allclose(got, exp, rtol=1e-9, atol=1e-12)
    return dict(confirmed=bool(bad), detail=f'BST(x, u, positive=True) = {got.tolist()}, documented formula gives {exp.tolist()}',
                inputs=dict(x=x.tolist(), u=u))

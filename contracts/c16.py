"""C16 -- critical regularisation strength.

lemma over two REAL methods of each penalty that defines alpha_max (no spec function involved):
    amax = P(.).alpha_max(g0)
    alpha >= amax  ==>  forall penalised j:  P(alpha).subdiff_distance(0, g0)[j] == 0      (null solution is stationary)
    alpha <  amax  ==>  exists  penalised j:  P(alpha).subdiff_distance(0, g0)[j]  > 0      (null solution is not)
for every gradient g0 at the null model, weights (zero weights = unpenalised, excluded from the maximum) and
positivity flag; gradient length 2 (bounded: B) -- the maximum over more entries is the same fold.
`_alpha_max_group_lasso` against WeightedGroupL2.subdiff_distance for two groups (bounded layouts).
What is NOT decided here: that a solver run started at alpha >= alpha_max returns exactly zero (with an
intercept this depends on convergence) -- C01's zero-iteration path covers the no-intercept case.
"""
import numpy as np

from pv.core import add_task, describe
from .catalog import PENALTIES, by_tag

describe('C16', level='proof', floor=10,
         explanation='alpha_max vs subdiff_distance at the null model, on the real methods',
         assumptions=['gradient vectors of length 2 (bounded); all real values, weights, both positivity flags'])


def amax_task(T, tag):
    import z3
    from pv import sym, symrun
    from pv.sproof import check_contract, zpre
    symrun.install()
    case = by_tag(tag)
    names = [n for n in case.names() if n != 'alpha']
    zv = {n: z3.Real(n) for n in names}
    g = [z3.Real('g0'), z3.Real('g1')]
    alpha = z3.Real('alpha')
    sp = case.spec(dict(zv, alpha=alpha))
    pre = zpre([sp.params_ok(), alpha > 0])
    if case.cls == 'L1_plus_L2':
        pre += [zv['l1_ratio'] > 0]      # l1_ratio = 0 (ridge) has no finite critical strength
    if case.weighted:
        pre += [zv['wt0'] >= 0, zv['wt1'] >= 0, z3.Or(zv['wt0'] > 0, zv['wt1'] > 0)]

    def build():
        vals = {k: sym.SymReal(e) for k, e in zv.items()}
        p_any = case.instantiate(dict(vals, alpha=sym.SymReal(z3.RealVal(1))), wrap='sym')
        gv = np.array([sym.SymReal(g[0]), sym.SymReal(g[1])], dtype=object)
        amax = p_any.alpha_max(gv)
        pen = case.instantiate(dict(vals, alpha=sym.SymReal(alpha)), wrap='sym')
        mask = pen.is_penalized(2)
        w0 = np.array([0., 0.], dtype=object)
        sc = pen.subdiff_distance(w0, gv, np.arange(2))
        return amax, sc, mask

    def post(out, p):
        amax, sc, mask = out
        a = sym.lift(amax)
        # penalised = non-zero weight (zero weights are the unpenalised part, whatever is_penalized() says)
        pens = [0, 1]
        wz = [zv.get('wt0'), zv.get('wt1')] if case.weighted else [None, None]
        def stat(j):
            c = sym.lift(sc[j]) == 0
            return z3.Implies(wz[j] > 0, c) if wz[j] is not None else c
        def nonstat(j):
            c = sym.lift(sc[j]) > 0
            return z3.And(wz[j] > 0, c) if wz[j] is not None else c
        cs = [('above=>null-is-stationary', [alpha >= a], z3.And(*[stat(j) for j in pens])),
              ('below=>null-is-not-stationary', [alpha < a], z3.Or(*[nonstat(j) for j in pens]))]
        return cs

    T.cover('requires', pre)
    check_contract(T, 'alpha_max~subdiff_distance', build, pre, post, strength='B',
                   replay=dict(fn='contracts.c16:replay_amax', args=dict(tag=tag)))


for _c in PENALTIES:
    if _c.has_alpha_max:
        add_task('C16', f'{_c.module.split(".")[-1]}:{_c.tag}.alpha_max', amax_task, strength='B', tag=_c.tag)


def replay_amax(args, model):
    from .c07 import _fl
    case = by_tag(args['tag'])
    vals = {n: _fl(model, n, 1.0) for n in case.names()}
    g = np.array([_fl(model, 'g0'), _fl(model, 'g1')])
    alpha = vals['alpha']
    try:
        amax = float(case.native_instance(dict(vals, alpha=1.0)).alpha_max(g))
        pen = case.native_instance(vals)
        sc = np.asarray(pen.subdiff_distance(np.zeros(2), g, np.arange(2)))
        mask = np.asarray(pen.is_penalized(2))
    except Exception as ex:     # noqa
        return dict(confirmed=True, detail=f'raised {type(ex).__name__}: {ex}', inputs=dict(vals, g=g.tolist()))
    if case.weighted:
        mask = np.array([vals['wt0'] > 0, vals['wt1'] > 0])
    scp = sc[mask]
    bad = (alpha >= amax and np.any(scp > 1e-12)) or (alpha < amax * (1 - 1e-9) and not np.any(scp > 0))
    return dict(confirmed=bool(bad), detail=f'alpha={alpha} alpha_max={amax} scores at 0 (penalised)={scp.tolist()}',
                inputs=dict(vals, g=g.tolist()))


def group_amax_task(T):
    """_alpha_max_group_lasso(X, y, grp_indices, grp_ptr, weights) against WeightedGroupL2.subdiff_distance at w = 0 with the gradient
    of the quadratic datafit at the null model, on the non-contiguous layout groups {2,0},{1}: alpha >= alpha_max <=> all scores 0"""
    import z3
    from pv import sym, symrun
    from pv.sproof import check_contract, zpre
    from .c06 import Env
    from .catalog import objarr
    symrun.install()
    # layout where the POSITIONS of a group inside grp_indices differ, as a set, from its feature indices
    GP, GI = np.array([0, 2, 3], dtype=np.int32), np.array([2, 0, 1], dtype=np.int32)
    fn = symrun.get('skglm.utils.data', '_alpha_max_group_lasso')
    WG = symrun.get('skglm.penalties.block_separable', 'WeightedGroupL2')
    n, p = 1, 3
    e = Env(n, p)
    R = sym.SymReal
    a = z3.Real('alpha')
    wt = [z3.Real('wt0'), z3.Real('wt1')]
    pre = zpre([a > 0, wt[0] > 0, wt[1] > 0])
    L = sym.lift

    def run():
        X, y = e.symX(), e.sym(e.y)
        W = objarr([R(wt[0]), R(wt[1])])
        amax = fn(X, y, GI, GP, W)
        grad = np.array([-(X[0, j] * y[0]) / n for j in (2, 0, 1)], dtype=object)      # stacked in working-set order (0, 1)
        sc = WG(R(a), W, GP, GI, False).subdiff_distance(np.array([0., 0., 0.], dtype=object), grad, np.array([0, 1]))
        return amax, sc

    def post(out, pth):
        amax, sc = out
        am = L(amax)
        return [('above=>null-is-stationary', [a >= am], z3.And(L(sc[0]) == 0, L(sc[1]) == 0)),
                ('below=>null-is-not-stationary', [a < am], z3.Or(L(sc[0]) > 0, L(sc[1]) > 0))]
    check_contract(T, 'alpha_max~subdiff_distance', run, pre, post, strength='B')


add_task('C16', 'utils.data:_alpha_max_group_lasso', group_amax_task, strength='B')

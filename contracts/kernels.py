"""Kernel contracts of the coordinate-descent epoch kernels, checked by front end S on the REAL kernels
(`anderson_cd._cd_epoch`, `_cd_epoch_sparse`): all real values of X, y, w, hyper-parameters; shapes enumerated
(2 samples x 2 features, every CSC pattern for the sparse kernel) -- bounded (B).

  inv      (C01/C05)  Xw' - X w' == Xw - X w                       [the kernel contract the opaque-mode proofs assume]
  frame    (C18)      only w[ws] and Xw change; X, y, lipschitz untouched
  descent  (C03)      one coordinate step from any consistent state does not increase datafit + penalty
                      (Quadratic datafit: exact curvature; penalties: L1, L1_plus_L2, WeightedL1, MCP in its step range,
                       IndicatorBox, PositiveConstraint)
  feas     (C04)      the updated coefficient lies in the penalty's domain, feasibility of the others is untouched
  zero-col (C19)      an all-zero column with w_j = 0 keeps w_j = 0; no division by zero, no exception
  dense==sparse (C10) `_cd_epoch_sparse` on the CSC encoding gives the same (w, Xw) as `_cd_epoch`
"""
import itertools

import numpy as np

from pv.core import add_task, describe

PENS = ['L1[positive=False]', 'L1[positive=True]', 'L1_plus_L2[positive=False]', 'WeightedL1[positive=False]',
        'WeightedL1[positive=True]', 'MCPenalty[positive=False]', 'IndicatorBox', 'PositiveConstraint']


def cd_epoch_task(T, tag, sparse, focus, j=1, zero_col=False, pshard=None):
    import z3
    from pv import sym, symrun
    from pv.sproof import check_contract, zpre
    from .catalog import by_tag
    from .c06 import Env, patterns
    from . import spec as S
    symrun.install()
    ACD = 'skglm.solvers.anderson_cd'
    kern = symrun.get(ACD, '_cd_epoch_sparse' if sparse else '_cd_epoch')
    Quadratic = symrun.get('skglm.datafits.single_task', 'Quadratic')
    case = by_tag(tag)
    e = Env(2, 2)
    R = sym.SymReal
    zv = {n: z3.Real(n) for n in case.names()}
    sp = case.spec(zv, j=j)
    pre = zpre([sp.params_ok()])
    pats = list(patterns(2, 2)) if sparse else [None]
    if zero_col:
        pats = [[[1, 0], [1, 0]]] if j == 1 else [[[0, 1], [0, 1]]]
    if pshard is not None:
        pats = [pt for k, pt in enumerate(pats) if k % pshard[1] == pshard[0]]       # CSC patterns split over worker processes
    for pat in pats:
        ptag = '' if pat is None and not zero_col else '[csc=' + ''.join(str(b) for r in pat for b in r) + ']'
        Xz = [[e.Xz(pat, i, k) for k in range(2)] for i in range(2)]

        def build(pat=pat):
            X = e.symX(pat)
            y, w0 = e.sym(e.y), e.sym(e.w)
            w = w0.copy()
            Xw0 = np.array([X[i, 0] * w0[0] + X[i, 1] * w0[1] + R(e.z[i]) for i in range(2)], dtype=object)  # any residual z
            Xw = Xw0.copy()
            df = Quadratic()
            pen = case.instantiate({k: R(v) for k, v in zv.items()}, wrap='sym')
            if sparse:
                data, indptr, indices = e.csc(pat)
                df.initialize_sparse(data, indptr, indices, y)
                lc = df.get_lipschitz_sparse(data, indptr, indices, y)
                lc0 = lc.copy()
                kern(data, indptr, indices, y, w, Xw, lc, df, pen, np.array([j]))
            else:
                df.initialize(X, y)
                lc = df.get_lipschitz(X, y)
                lc0 = lc.copy()
                kern(X, y, w, Xw, lc, df, pen, np.array([j]))
            if focus == 'storage':
                # the dense kernel from the same start on the same (pattern-restricted) design: storage independence (C10)
                dkern = symrun.get(ACD, '_cd_epoch')
                wd, Xwd = w0.copy(), Xw0.copy()
                dfd = Quadratic()
                dfd.initialize(X, y)
                dkern(X, y, wd, Xwd, dfd.get_lipschitz(X, y), dfd, pen, np.array([j]))
                return dict(w=w, Xw=Xw, w0=w0, Xw0=Xw0, o0=0., o1=0., lc=lc, lc0=lc0, wd=wd, Xwd=Xwd)
            if focus == 'descent':
                d0, p0 = df.value(y, w0, Xw0), pen.value(w0)
                d1, p1 = df.value(y, w, Xw), pen.value(w)
                o0 = p0 if sym.is_inf(p0) else d0 + p0
                o1 = p1 if sym.is_inf(p1) else d1 + p1
            else:
                o0 = o1 = 0.
            return dict(w=w, Xw=Xw, w0=w0, Xw0=Xw0, o0=o0, o1=o1, lc=lc, lc0=lc0)

        def post(out, p, pat=pat):
            w, Xw, w0, Xw0 = out['w'], out['Xw'], out['w0'], out['Xw0']
            L = sym.lift
            cs = []
            if focus == 'inv':
                for i in range(2):
                    cs.append((f'Xw-Xw-preserved[{i}]', [],
                               L(Xw[i]) - (Xz[i][0] * L(w[0]) + Xz[i][1] * L(w[1])) == e.z[i]))
            if focus == 'storage':
                cs.append(('sparse-epoch==dense-epoch(w)', [], z3.And(*[L(w[k]) == L(out['wd'][k]) for k in range(2)])))
                cs.append(('sparse-epoch==dense-epoch(Xw)', [], z3.And(*[L(Xw[i]) == L(out['Xwd'][i]) for i in range(2)])))
            if focus == 'frame':
                cs.append(('only-w[ws]-changes', [], L(w[1 - j]) == e.w[1 - j]))
                cs.append(('lipschitz-untouched', [], z3.And(*[L(out['lc'][k]) == L(out['lc0'][k]) for k in range(2)])))
            if focus == 'descent':
                # consistent start (residual z = 0) inside the step range of a non-convex penalty
                hy = [e.z[0] == 0, e.z[1] == 0]
                if not sp.convex:
                    hy.append(sp.step_ok(1 / L(out['lc'][j])) if False else z3.BoolVal(True))
                if not (sym.is_inf(out['o0']) or sym.is_inf(out['o1'])):
                    cs.append(('objective-non-increasing', hy + ([sp.dom(e.w[j])] if sp.dom(e.w[j]) is not True else []),
                               L(out['o1']) <= L(out['o0'])))
                elif sym.is_inf(out['o1']):
                    cs.append(('objective-non-increasing', hy, z3.BoolVal(sym.is_inf(out['o0']))))
            if focus == 'feas':
                d = sp.dom(L(w[j]))
                if d is not True:
                    cs.append(('updated-coefficient-feasible', [], d))
            if focus == 'zero-col':
                cs.append(('zero-column-keeps-zero', [e.w[j] == 0], L(w[j]) == 0))
                if case.cls in ('L1', 'MCPenalty'):
                    # a penalised coefficient on an all-zero column is pulled towards 0 (it cannot stay where it is)
                    aw, aw0 = S.Abs(L(w[j])), S.Abs(e.w[j])
                    cs.append(('zero-column-coefficient-shrinks', [zv['alpha'] > 0, e.z[0] == 0, e.z[1] == 0] +
                               ([S.Abs(e.w[j]) < zv['alpha'] * zv['gamma']] if case.cls == 'MCPenalty' else []),
                               z3.Or(L(w[j]) == 0, aw < aw0)))
            return cs
        extra_pre = []
        if focus == 'descent' and not sp.convex:
            # MCP is well posed only for steps 1/L_j < gamma: L_j * gamma > 1
            Lj = sum((Xz[i][j] * Xz[i][j] for i in range(2)), z3.RealVal(0)) / 2
            extra_pre = [Lj * zv['gamma'] > 1]
        check_contract(T, f'{focus}{ptag}', build, pre + extra_pre, post, strength='B',
                       replay=dict(fn='contracts.kernels:replay_cd_epoch', args=dict(tag=tag, sparse=sparse, j=j, pattern=pat)))


def replay_cd_epoch(args, model):
    """native run of the compiled kernel on the model's data; recompute the contract clauses numerically"""
    from fractions import Fraction
    from scipy import sparse as sps
    from skglm.solvers.anderson_cd import _cd_epoch, _cd_epoch_sparse
    from skglm.datafits import Quadratic
    from skglm.utils.jit_compilation import compiled_clone
    from .catalog import by_tag

    def fl(nm, d=0.5):
        v = model.get(nm)
        if v is None:
            return d
        try:
            return float(Fraction(v))
        except (ValueError, ZeroDivisionError):
            return float(v.rstrip('?'))
    case = by_tag(args['tag'])
    pat, j = args.get('pattern'), args['j']
    X = np.array([[fl(f'X{i}_{k}') if (pat is None or pat[i][k]) else 0. for k in range(2)] for i in range(2)], order='F')
    y = np.array([fl('y0'), fl('y1')])
    w0 = np.array([fl('w0'), fl('w1')])
    z = np.array([fl('z0', 0.), fl('z1', 0.)])
    vals = {n: fl(n, 1.0) for n in case.names()}
    Xw0 = X @ w0 + z
    w, Xw = w0.copy(), Xw0.copy()
    inputs = dict(X=X.tolist(), y=y.tolist(), w=w0.tolist(), residual=z.tolist(), **vals)
    try:
        df = compiled_clone(Quadratic())
        pen = case.native_instance(vals)
        if args['sparse']:
            from .c06 import _csc_from_pattern
            Xs = _csc_from_pattern(X, pat)
            df.initialize_sparse(Xs.data, Xs.indptr, Xs.indices, y)
            lc = df.get_lipschitz_sparse(Xs.data, Xs.indptr, Xs.indices, y)
            _cd_epoch_sparse(Xs.data, Xs.indptr, Xs.indices, y, w, Xw, lc, df, pen, np.array([j]))
        else:
            df.initialize(X, y)
            lc = df.get_lipschitz(X, y)
            _cd_epoch(X, y, w, Xw, lc, df, pen, np.array([j]))
    except Exception as ex:     # noqa
        return dict(confirmed=True, detail=f'kernel raised {type(ex).__name__}: {ex}', inputs=inputs)
    sp = case.spec(vals, j=j)
    o0 = float(df.value(y, w0, Xw0) + pen.value(w0))
    o1 = float(df.value(y, w, Xw) + pen.value(w))
    probs = []
    if not np.all(np.isfinite(w)) or not np.all(np.isfinite(Xw)):
        probs.append('non-finite output')
    if np.max(np.abs((Xw - X @ w) - z)) > 1e-9 * (1 + np.max(np.abs(Xw))):
        probs.append(f'residual changed: {(Xw - X @ w).tolist()} vs {z.tolist()}')
    if w[1 - j] != w0[1 - j]:
        probs.append('coefficient outside ws changed')
    if not sp.dom(w[j]):
        probs.append(f'updated coefficient {w[j]} infeasible')
    if np.all(z == 0) and sp.dom(w0[j]) and o1 > o0 + 1e-9 * (1 + abs(o0)) and (sp.convex or lc[j] * vals.get('gamma', 1) > 1):
        probs.append(f'objective increased {o0} -> {o1}')
    if np.all(X[:, j] == 0) and w0[j] == 0 and w[j] != 0:
        probs.append('zero column got a non-zero coefficient')
    if np.all(X[:, j] == 0) and w0[j] != 0 and case.cls in ('L1', 'MCPenalty') and vals.get('alpha', 0) > 0 \
            and (case.cls == 'L1' or abs(w0[j]) < vals['alpha'] * vals['gamma']) and not (w[j] == 0 or abs(w[j]) < abs(w0[j])):
        probs.append(f'penalised coefficient on an all-zero column is not pulled towards 0: {w0[j]} -> {w[j]}')
    return dict(confirmed=bool(probs), detail='; '.join(probs) or f'contract holds natively (obj {o0} -> {o1})', inputs=inputs)


FOCUS_PROP = {'inv': ['C01', 'C05', 'C19', 'C13', 'C20'], 'frame': ['C18'], 'descent': ['C03'], 'feas': ['C04'], 'zero-col': ['C19'],
              'storage': ['C10']}
for _tag in PENS:
    for _sp in (False, True):
        for _f, _props in FOCUS_PROP.items():
            if _f in ('inv', 'frame', 'storage') and _tag not in ('L1[positive=False]', 'WeightedL1[positive=True]'):
                continue        # data-flow clauses do not depend on the penalty: two representatives
            if _f == 'storage' and not _sp:
                continue
            if _f == 'feas' and _tag in ('L1[positive=False]', 'L1_plus_L2[positive=False]', 'WeightedL1[positive=False]',
                                         'MCPenalty[positive=False]'):
                continue
            if _f == 'zero-col' and _tag not in ('L1[positive=False]', 'MCPenalty[positive=False]', 'IndicatorBox'):
                continue
            nm = f"anderson_cd:{'_cd_epoch_sparse' if _sp else '_cd_epoch'}[{_tag}]/{_f}"
            _tier = 'thorough' if (_sp and _f not in ('inv', 'zero-col', 'storage')) or (_f == 'descent' and 'MCP' in _tag) else 'quick'
            if _sp and _f == 'descent' and _tier == 'thorough':
                # 16 CSC patterns x a slow nonlinear descent query: one worker process per 2 patterns
                for _k in range(8):
                    add_task(_props, nm + f'#{_k}', cd_epoch_task, strength='B', tag=_tag, sparse=_sp, focus=_f, tier=_tier, pshard=(_k, 8))
            else:
                add_task(_props, nm, cd_epoch_task, strength='B', tag=_tag, sparse=_sp, focus=_f, zero_col=(_f == 'zero-col'), tier=_tier)

"""C18 -- fitting is pure: frame (modifies-clause) contracts on the orchestration code, decided on the real ASTs by pv/frame.py.

Contracts (each an obligation per entry point, for every input -- the analysis is a may-alias over-approximation of the writes):

  solver.<solve|_solve|path|custom_checks|_validate>      for every BaseSolver subclass
      modifies  only: the documented in/out buffers w_init / Xw_init, the datafit handed in (initialize()), penalty.alpha in path()
      hence     X, y, the solver object itself (no attribute store on self, no in-place write into an array reachable from self),
                arrays reachable from the penalty, and module-level state are unchanged
  estimator.<fit|path|predict|predict_proba|predict_log_proba|decision_function|score|get_params|...>  for every estimator class
      modifies  only attributes of self whose name ends with '_' (fitted attributes), default-filling of None hyper-parameters
                (self.p = self.p if self.p else <fresh>), set_params (by contract)
      hence     X, y, sample weights and the constructor hyper-parameters are unchanged, so a fitted estimator can be fitted again
                from the same hyper-parameters
  module state  no function of the package writes a module-level object, except memoisation whose key contains every parameter
                the stored value depends on (functools.lru_cache: key = all arguments, trusted)
  RNG           no function reachable from fit/solve draws from a global random generator (result depends only on arguments)

The kernel frames (what the jitted epochs write) are contracts of contracts/kernels.py / kernels2.py (front end S) and are part of
this property's check as well.
"""
import ast
import os

from pv.core import add_task, describe

REPO = os.environ.get('SKGLM_REPO', '/repo')

describe('C18', level='proof', floor=20,
         explanation='frame contracts: kernels (symbolic execution) + orchestration code (may-alias modifies analysis of the real AST)',
         assumptions=['may-alias analysis: flow-insensitive, class-hierarchy call resolution inside skglm; reflection (setattr with '
                      'computed names, __dict__), writes through containers of arrays and C extensions other than the listed numpy '
                      'mutators are not tracked',
                      'sklearn validation helpers (check_array, _validate_data, LabelEncoder) are assumed not to write their inputs',
                      'functools.lru_cache keys on all arguments (trusted standard library)',
                      'equality of results across fit histories is reduced to: no write to anything but the fitted attributes '
                      '(float non-determinism of BLAS / threads is outside the model)'])

SOLVER_ENTRY = ('solve', '_solve', 'path', 'custom_checks', '_validate')
EST_ENTRY = ('fit', 'path', 'predict', 'predict_proba', 'predict_log_proba', 'decision_function', '_decision_function', 'score',
             'get_params', 'fit_predict', 'transform')

# (class or '*', method or '*', root pattern) -> reason.  Root patterns: tuple prefix of the root; attr stores as (root..., '.attr')
SOLVER_ALLOWED = [
    (('p', 'w_init'), 'documented in/out buffer: the solution is written into the start point'),
    (('p', 'Xw_init'), 'documented in/out buffer: the model fit of the start point is updated in place'),
    (('p', 'W_init'), 'documented in/out buffer (multitask solve)'),
    (('p', 'XW_init'), 'documented in/out buffer (multitask solve)'),
    (('p', 'datafit'), 'the solver initialises the datafit it is handed (initialize / initialize_sparse store its caches)'),
    (('p', 'penalty', '.alpha'), 'path() sets penalty.alpha for each grid point (documented mechanism of path)'),
]


def _fmt(r):
    return '.'.join(map(str, r[1:])) if r[0] == 'p' else f'<module {r[1]}>.{r[2]}'


def _allowed(root, attr, allowed):
    for pat, why in allowed:
        if pat and pat[-1].startswith('.'):
            if attr is not None and root == pat[:-1] and ('.' + attr) == pat[-1]:
                return why
            continue
        if root[:len(pat)] == pat and (attr is None or len(root) >= len(pat)):
            return why
    return None


def solver_frame_task(T):
    from pv.frame import Package
    P = Package(REPO)
    solvers = [(m, c) for (m, c) in P.subclasses_of('BaseSolver') if c.name != 'BaseSolver']
    if len(solvers) < 5:
        T.failed('frame/solver-classes-found', f'only {len(solvers)} BaseSolver subclasses found')
    entries = []
    for m, c in sorted(solvers, key=lambda t: t[1].name):
        for meth in SOLVER_ENTRY:
            mm = P.find_method(m, c, meth)
            if mm is not None:
                entries.append((c, meth, (mm[0], mm[2], mm[1], (m, c, False))))
    sums = P.solve_all([e[2] for e in entries])
    for (c, meth, e), s in zip(entries, sums):
        if True:
            m = e[3][0]
            bad = []
            for r, ev in s['elem'].items():
                if _allowed(r, None, SOLVER_ALLOWED) is None:
                    bad.append(f'in-place write into `{_fmt(r)}` ({ev[0][1]}, line {ev[0][0]})')
            for (r, at), ev in s['attr'].items():
                if _allowed(r, at, SOLVER_ALLOWED) is None:
                    bad.append(f'attribute store `{_fmt(r)}.{at}` ({ev[0][1]}, line {ev[0][0]})')
            for r, ev in s['glob'].items():
                bad.append(f'module-level state `{_fmt(r)}` written ({ev[0][1]}, line {ev[0][0]})')
            name = f'frame/{c.name}.{meth}/modifies-only:w_init,Xw_init,datafit-caches,penalty.alpha'
            if bad:
                T.failed(name, '; '.join(sorted(set(bad))[:6]),
                         replay=dict(fn='contracts.c18:replay_solver_pure', args=dict(cls=c.name, module=m, method=meth)))
            else:
                T.ok(name, note=f'{len(s["elem"])} element-write roots, {len(s["attr"])} attribute stores, all inside the frame')


add_task('C18', 'frame:solvers', solver_frame_task)


def _is_default_fill(node, attr):
    """self.a = self.a if self.a else <expr>   /   if self.a is None: self.a = <expr>  (idempotent default filling)"""
    v = node.value
    if isinstance(v, ast.IfExp) and ast.unparse(v.body) == f'self.{attr}' and ast.unparse(v.test) == f'self.{attr}':
        return True
    return False


def estimator_frame_task(T):
    from pv.frame import Package
    P = Package(REPO)
    ests = []
    for (m, n), c in P.classes.items():
        names = {cc.name for _, cc in P.class_mro(m, c)}
        bases = {ast.unparse(b).split('.')[-1] for _, cc in P.class_mro(m, c) for b in cc.bases}
        if bases & {'BaseEstimator', 'LinearModel', 'RegressorMixin', 'LinearClassifierMixin', 'Lasso_sklearn', 'ElasticNet_sklearn',
                    'MultiTaskLasso_sklearn', 'LinearSVC_sklearn', 'LogReg_sklearn', 'LogisticRegression_sklearn'} \
                and not any(x in names for x in ('BaseSolver',)):
            ests.append((m, c))
    if len(ests) < 8:
        T.failed('frame/estimator-classes-found', f'only {len(ests)} estimator classes found')
    entries = []
    for m, c in sorted(ests, key=lambda t: t[1].name):
        for meth in EST_ENTRY:
            mm = P.find_method(m, c, meth)
            if mm is not None and mm[0].startswith('skglm'):
                entries.append((c, meth, mm, (mm[0], mm[2], mm[1], (m, c, False))))
    sums = P.solve_all([e[3] for e in entries])
    for (c, meth, mm, e), s in zip(entries, sums):
        m = e[3][0]
        # constructor hyper-parameters: every attribute stored by an __init__ of the class or of its bases
        hyper = set()
        for bm, bc in P.class_mro(m, c):
            for st in bc.body:
                if isinstance(st, ast.FunctionDef) and st.name == '__init__':
                    hyper |= {a.arg for a in st.args.args[1:] + st.args.kwonlyargs}
                    for n in ast.walk(st):
                        if isinstance(n, ast.Attribute) and isinstance(n.ctx, ast.Store) and ast.unparse(n.value) == 'self':
                            hyper.add(n.attr)
        fills = set()            # idempotent default-filling stores in the method itself
        for n in ast.walk(mm[2]):
            if isinstance(n, ast.Assign) and len(n.targets) == 1 and isinstance(n.targets[0], ast.Attribute) \
                    and ast.unparse(n.targets[0].value) == 'self' and _is_default_fill(n, n.targets[0].attr):
                fills.add(n.targets[0].attr)
        bad = []
        for r, ev in s['elem'].items():
            if r[:2] == ('p', 'self') and len(r) >= 3 and r[2] not in hyper:
                continue                  # in-place update of a fitted attribute
            bad.append(f'in-place write into `{_fmt(r)}` ({ev[0][1]}, line {ev[0][0]})')
        for (r, at), ev in s['attr'].items():
            if r == ('p', 'self') and (at not in hyper or at in fills):
                continue
            if r[:2] == ('p', 'self') and len(r) >= 3 and r[2] not in hyper:
                continue
            bad.append(f'attribute store `{_fmt(r)}.{at}` ({ev[0][1]}, line {ev[0][0]})')
        for r, ev in s['glob'].items():
            bad.append(f'module-level state `{_fmt(r)}` written ({ev[0][1]}, line {ev[0][0]})')
        name = f'frame/{c.name}.{meth}/modifies-only:fitted-attributes-of-self(no-input-array,no-constructor-hyper-parameter)'
        if bad:
            T.failed(name, '; '.join(sorted(set(bad))[:6]),
                     replay=dict(fn='contracts.c18:replay_estimator_pure', args=dict(cls=c.name, module=m, method=meth)))
        else:
            T.ok(name, note=f'{len(s["attr"])} attribute stores, all fitted attributes; hyper-parameters: {sorted(hyper)[:12]}')


add_task('C18', 'frame:estimators', estimator_frame_task)


def module_state_task(T):
    """no function of the package writes module-level state, except memoisation keyed on every parameter; no function draws from
    a global random generator"""
    from pv.frame import Package, FuncAnalysis, dotted
    P = Package(REPO)
    fns = [(m, None, f) for (m, n), f in P.funcs.items()]
    for (m, n), c in P.classes.items():
        fns += [(m, c, st) for st in c.body if isinstance(st, ast.FunctionDef)]
    if len(fns) < 200:
        T.failed('module-state/functions-found', f'only {len(fns)} functions found')
    nmemo = nw = 0
    for m, c, f in sorted(fns, key=lambda t: (t[0], t[2].lineno)):
        if m.endswith('utils.data') or '._plot' in m:
            continue        # data generators (explicit random_state arguments) and plotting scripts are not on the fit path
        a = FuncAnalysis(P, m, f, c, (m, c, True) if c is not None else None)
        # direct writes only (callee effects are the callee's own obligation)
        a.call_targets = lambda e: []
        s = a.run()
        q = f'{m}.{c.name + "." if c is not None else ""}{f.name}'
        for r, ev in s['glob'].items():
            nw += 1
            T.failed(f'module-state/{q}/no-write-to-module-level-state', f'`{r[2]}` of {r[1]}: {ev[0][1]} (line {ev[0][0]}); a '
                     'memo must be keyed on every parameter of the function', replay=dict(fn='contracts.c18:replay_module_state',
                                                                                      args=dict(module=m, function=f.name)))
        for r, ev in s['memo'].items():
            nmemo += 1
            T.ok(f'module-state/{q}/memo:{r[2]}-keyed-on-every-parameter', note=ev[0][1])
        for n in ast.walk(f):
            if isinstance(n, ast.Call):
                dn = dotted(n.func) or ''
                if dn.startswith(('np.random.', 'numpy.random.', 'random.')) and dn.split('.')[-1] not in ('RandomState', 'default_rng',
                                                                                                       'Generator', 'SeedSequence'):
                    T.failed(f'rng/{q}/no-draw-from-a-global-random-generator', f'{dn}(...) at line {n.lineno}: the result depends '
                             'on the history of the global generator, not only on the arguments',
                             replay=dict(fn='contracts.c18:replay_rng', args=dict(module=m, function=f.name)))
        for dec in f.decorator_list:
            dn = dotted(dec.func if isinstance(dec, ast.Call) else dec) or ''
            if dn.split('.')[-1] in ('lru_cache', 'cache'):
                nmemo += 1
                T.ok(f'module-state/{q}/functools.{dn.split(".")[-1]}-keys-on-all-arguments', note='trusted standard library')
    T.ok('module-state/scan', note=f'{len(fns)} functions scanned, {nmemo} memoised, {nw} module-state writes')


add_task('C18', 'frame:module-state+rng', module_state_task)


# ----------------------------------------------------------------------------- native replays

def _data(seed=0, n=24, p=6):
    import numpy as np
    rng = np.random.RandomState(seed)
    X = np.asfortranarray(rng.randn(n, p))
    w = np.zeros(p)
    w[:2] = [1.5, -2.]
    y = X @ w + 0.1 * rng.randn(n)
    return X, y


def replay_rng(args, model):
    """same arguments, different state of the global generator: results must be identical"""
    import importlib
    import numpy as np
    from scipy import sparse
    mod = importlib.import_module(args['module'])
    fn = getattr(mod, args['function'])
    X, y = _data()
    Xs = sparse.csc_matrix(X)
    try:
        outs = []
        for seed in (0, 1):
            np.random.seed(seed)
            try:
                import numba

                @numba.njit
                def _seed(s):
                    np.random.seed(s)
                _seed(seed)
            except Exception:      # noqa
                pass
            outs.append(float(fn(Xs.data, Xs.indptr, Xs.indices, X.shape[0])))
    except Exception as ex:      # noqa
        return dict(confirmed=False, detail=f'could not call {args["function"]}: {type(ex).__name__}: {ex}', inputs={})
    if outs[0] != outs[1]:
        return dict(confirmed=True, detail=f'{args["function"]} on the same arguments returned {outs[0]!r} and {outs[1]!r} after '
                    'seeding the global generator differently', inputs=dict(seeds=[0, 1], outputs=outs))
    return dict(confirmed=False, detail='identical outputs', inputs=dict(outputs=outs))


def replay_solver_pure(args, model):
    """byte-compare X, y, the solver's attributes and user arrays before / after solve() and path()"""
    import copy
    import importlib
    import warnings
    import numpy as np
    from contracts.repro import make_problem, components
    name = args['cls']
    try:
        X, Xs, y = make_problem(name, 0)
        rng = np.random.RandomState(0)
        df, pen, yy, kind = components(name, X, y, rng)
        S = getattr(importlib.import_module(args['module']), name)
        solver = S()
        if name == 'PDCD_WS':
            solver = S(dual_init=np.ones(X.shape[0]) * 0.1)
        before = copy.deepcopy({k: v for k, v in vars(solver).items()})
        X0, y0 = X.copy(), yy.copy()
        with warnings.catch_warnings():
            warnings.simplefilter('ignore')
            if args['method'] == 'path' and hasattr(solver, 'path'):
                solver.path(Xs, yy, df, pen, alphas=np.array([0.5, 0.1]), w_init=np.r_[np.ones(3), np.zeros(X.shape[1] - 3 + solver.fit_intercept)])
            else:
                solver.solve(Xs, yy, None if name == 'GramCD' else df, pen)
        after = vars(solver)
        diff = [k for k in before if not np.array_equal(np.asarray(before[k], dtype=object), np.asarray(after.get(k), dtype=object))]
        if diff or not np.array_equal(X0, X) or not np.array_equal(y0, yy):
            return dict(confirmed=True, detail=f'changed by {name}.{args["method"]}: solver attributes {diff}, '
                        f'X changed={not np.array_equal(X0, X)}, y changed={not np.array_equal(y0, yy)}',
                        inputs=dict(before={k: repr(before[k])[:60] for k in diff}, after={k: repr(after[k])[:60] for k in diff}))
    except Exception as ex:      # noqa
        return dict(confirmed=False, detail=f'scenario not runnable: {type(ex).__name__}: {str(ex)[:200]}', inputs={})
    return dict(confirmed=False, detail='no difference observed in the scenario tried', inputs={})


def replay_estimator_pure(args, model):
    return dict(confirmed=False, detail='no native scenario for this estimator frame', inputs={})


def replay_module_state(args, model):
    """compiled class cache: the same class compiled for float64 then float32 must give different compiled classes"""
    import numpy as np
    try:
        from skglm.utils.jit_compilation import compiled_clone
        from skglm.datafits import Quadratic
        a = compiled_clone(Quadratic(), to_float32=False)
        b = compiled_clone(Quadratic(), to_float32=True)
        a.initialize(np.ones((2, 2)), np.ones(2))
        b.initialize(np.ones((2, 2), dtype=np.float32), np.ones(2, dtype=np.float32))
        if a.Xty.dtype == b.Xty.dtype:
            return dict(confirmed=True, detail='compiled_clone(Quadratic(), to_float32=True) after a float64 clone returns the float64 '
                        f'class (Xty dtype {b.Xty.dtype})', inputs=dict(order=['float64', 'float32']))
    except Exception as ex:      # noqa
        return dict(confirmed=True, detail=f'float32 clone after a float64 clone fails: {type(ex).__name__}: {str(ex)[:200]}',
                    inputs=dict(order=['float64', 'float32']))
    return dict(confirmed=False, detail='cache returns distinct classes', inputs={})


def no_stale_state_task(T):
    """fit / path / _glm_fit never READ an attribute that an earlier fit wrote (a fitted attribute: any attribute of self / model that
    is not a constructor hyper-parameter), except (a) after writing it in the same call on a dominating path, or (b) under a test that
    mentions the warm-start flag.  Hence, without warm start, the result of a fit is a function of the arguments and of the
    constructor hyper-parameters only (no state leaks from one fit to the next)."""
    from pv.frame import Package
    P = Package(REPO)
    targets = []
    for (m, n), c in P.classes.items():
        bases = {ast.unparse(b).split('.')[-1] for _, cc in P.class_mro(m, c) for b in cc.bases}
        if not bases & {'BaseEstimator', 'LinearModel', 'RegressorMixin', 'LinearClassifierMixin', 'Lasso_sklearn', 'ElasticNet_sklearn',
                        'MultiTaskLasso_sklearn', 'LinearSVC_sklearn', 'LogReg_sklearn', 'LogisticRegression_sklearn'}:
            continue
        hyper, methods = set(), set()
        for bm, bc in P.class_mro(m, c):
            for st in bc.body:
                if isinstance(st, ast.FunctionDef):
                    methods.add(st.name)
                    if st.name == '__init__':
                        hyper |= {a.arg for a in st.args.args[1:] + st.args.kwonlyargs}
                        hyper |= {n.attr for n in ast.walk(st) if isinstance(n, ast.Attribute) and isinstance(n.ctx, ast.Store)
                                  and ast.unparse(n.value) == 'self'}
        for st in c.body:
            if isinstance(st, ast.FunctionDef) and st.name in ('fit', 'path'):
                targets.append((f'{c.name}.{st.name}', st, 'self', hyper, methods))
    gf = P.funcs.get(('skglm.estimators', '_glm_fit'))
    if gf is not None:
        targets.append(('_glm_fit', gf, 'model', None, set()))
    if len(targets) < 10:
        T.failed('stale-state/functions-found', f'only {len(targets)} fit/path functions found')

    def chain_of(fn):
        """node id -> list of (If node, branch) enclosing it"""
        out = {}

        def walk(body, chain):
            for s in body:
                for n in ast.walk(s):
                    out.setdefault(id(n), chain)
                if isinstance(s, ast.If):
                    for n in ast.walk(s.test):
                        out[id(n)] = chain + [(s, 'test')]
                    walk(s.body, chain + [(s, 'body')])
                    walk(s.orelse, chain + [(s, 'orelse')])
                elif isinstance(s, (ast.For, ast.While, ast.With, ast.Try)):
                    for blk in ('body', 'orelse', 'finalbody'):
                        walk(getattr(s, blk, []) or [], chain)
                    for h in getattr(s, 'handlers', []) or []:
                        walk(h.body, chain)
        walk(fn.body, [])
        return out
    for q, fn, obj, hyper, methods in targets:
        chains = chain_of(fn)
        writes = []      # (attr, lineno, chain)
        for n in ast.walk(fn):
            if isinstance(n, ast.Attribute) and isinstance(n.ctx, ast.Store) and ast.unparse(n.value) == obj:
                writes.append((n.attr, n.lineno, chains.get(id(n), [])))
        called = {id(n.func) for n in ast.walk(fn) if isinstance(n, ast.Call)}
        bad = []
        nreads = 0
        for n in ast.walk(fn):
            attr = None
            if isinstance(n, ast.Attribute) and isinstance(n.ctx, ast.Load) and ast.unparse(n.value) == obj and id(n) not in called:
                attr = n.attr
            elif isinstance(n, ast.Call) and ast.unparse(n.func) in ('hasattr', 'getattr') and len(n.args) >= 2 \
                    and ast.unparse(n.args[0]) == obj and isinstance(n.args[1], ast.Constant):
                attr = n.args[1].value
            if attr is None or attr in methods or attr.startswith('__') or (hyper is not None and attr in hyper):
                continue
            if hyper is None and not attr.endswith('_'):
                continue            # `model` in _glm_fit: hyper-parameters have no trailing underscore (sklearn convention)
            nreads += 1
            ch = chains.get(id(n), [])
            guarded = any('warm_start' in ast.unparse(s.test) for s, _ in ch)
            # the enclosing BoolOp / test itself may carry the guard (`solver.warm_start and hasattr(model, 'coef_')`)
            dominated = any(a == attr and ln < n.lineno and all(any(s is s2 and b == b2 for s2, b2 in ch) for s, b in wch)
                            for a, ln, wch in writes)
            if not (guarded or dominated):
                bad.append(f'`{obj}.{attr}` read at line {n.lineno}')
        name = f'stale-state/{q}/reads-no-fitted-attribute-of-an-earlier-fit(unless-warm_start)'
        if bad:
            T.failed(name, '; '.join(sorted(set(bad))[:6]), replay=dict(fn='contracts.c18:replay_stale_state', args=dict(function=q)))
        else:
            T.ok(name, note=f'{nreads} reads of fitted attributes, all written earlier in the same call or under a warm-start test')


add_task('C18', 'frame:no-stale-state', no_stale_state_task)


def replay_stale_state(args, model):
    """refit after changing hyper-parameters / data must equal a fresh fit"""
    import warnings
    import numpy as np
    found = []
    rng = np.random.RandomState(0)
    X = rng.randn(30, 5)
    y = np.sign(rng.randn(30))
    yr = X @ np.array([1., 2, 0, 0, 0]) + .1 * rng.randn(30)
    with warnings.catch_warnings():
        warnings.simplefilter('ignore')
        try:
            from skglm.estimators import SparseLogisticRegression
            m = SparseLogisticRegression(alpha=0.01).fit(X, y)
            m.fit(X[:, :3], y)
            if m.n_features_in_ != 3:
                found.append(f'SparseLogisticRegression refit on 3 features: n_features_in_ == {m.n_features_in_}')
            from skglm.experimental.sqrt_lasso import SqrtLasso
            s = SqrtLasso(alpha=0.1, tol=1e-1, max_iter=1).fit(X, yr)
            s.tol, s.max_iter = 1e-10, 100
            s.fit(X, yr)
            f = SqrtLasso(alpha=0.1, tol=1e-10, max_iter=100).fit(X, yr)
            d = float(np.max(np.abs(s.coef_ - f.coef_)))
            if d > 1e-9:
                found.append(f'SqrtLasso refit after changing tol / max_iter differs from a fresh estimator by {d:.3g}')
        except Exception as ex:      # noqa
            found.append(f'scenario raised {type(ex).__name__}: {str(ex)[:160]}')
    if found:
        return dict(confirmed=True, detail='; '.join(found), inputs=dict(seed=0))
    return dict(confirmed=False, detail='native refit scenarios equal fresh fits', inputs={})

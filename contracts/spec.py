"""Specification library -- the oracle.  Written from the property statements and the class
docstrings of skglm, never from the method bodies.  Every function is polymorphic: it works on
z3 real terms (symbolic proof) and on Python floats (native replay)."""
import math

try:
    import z3
except ImportError:       # native replay can run without z3
    z3 = None


def _isz(*xs):
    return z3 is not None and any(isinstance(x, z3.ExprRef) for x in xs)


def If(c, a, b):
    if z3 is not None and isinstance(c, z3.ExprRef):
        return z3.If(c, _r(a), _r(b))
    return a if c else b


def _r(a):
    if z3 is not None and not isinstance(a, z3.ExprRef):
        return z3.RealVal(str(a)) if not isinstance(a, float) else z3.RealVal(repr(a))
    return a


def And(*cs):
    if _isz(*cs):
        return z3.And(*[c if isinstance(c, z3.ExprRef) else z3.BoolVal(bool(c)) for c in cs])
    return all(cs)


def Or(*cs):
    if _isz(*cs):
        return z3.Or(*[c if isinstance(c, z3.ExprRef) else z3.BoolVal(bool(c)) for c in cs])
    return any(cs)


def Not(c):
    if _isz(c):
        return z3.Not(c)
    return not c


def Abs(x):
    if _isz(x):
        return z3.If(x >= 0, x, -x)
    return abs(x)


def Max(a, b):
    return If(a >= b, a, b)


def Min(a, b):
    return If(a <= b, a, b)


def Sign(x):
    return If(x > 0, 1, If(x < 0, -1, 0))


INF = float('inf')

AUX = []        # defining constraints of spec-level roots created in z3 mode (collected by the checker)
_aux_n = [0]


def Root(x, q):
    """x ** (1/q) for x >= 0"""
    if _isz(x):
        _aux_n[0] += 1
        r = z3.Real(f'specroot{q}!{_aux_n[0]}')
        p = r
        for _ in range(q - 1):
            p = p * r
        AUX.append(z3.And(r >= 0, p == x))
        return r
    return x ** (1.0 / q)


def take_aux():
    out = list(AUX)
    del AUX[:]
    return out

# ------------------------------------------------------------------ separable penalties
# each spec: phi(t) value of ONE coordinate (finite part), dom(t) feasibility, pieces for case splits,
# dminus(t), dplus(t): one-sided derivatives of phi restricted to dom (regular subdifferential
# = [dminus, dplus] when dminus <= dplus; at a boundary of dom the outward side is -inf/+inf)


class PenSpec:
    convex = True
    name = ''
    inf_outside = True      # a configured POSITIVITY constraint: the score must be +inf where it is violated

    def dom(self, t):
        return True

    def step_ok(self, s):
        return True


class L1Spec(PenSpec):
    """alpha * |t| (+ indicator t >= 0 when positive); weight multiplies alpha"""

    def __init__(self, alpha, positive=False, weight=1):
        self.alpha, self.positive, self.weight = alpha, positive, weight

    def phi(self, t):
        return self.alpha * self.weight * Abs(t)

    def dom(self, t):
        return t >= 0 if self.positive else True

    def pieces(self, t):
        return [('neg', t < 0, -self.alpha * self.weight * t), ('pos', t >= 0, self.alpha * self.weight * t)]

    def params_ok(self):
        return And(self.alpha >= 0, self.weight >= 0)

    def sub(self, t):
        """(lo, hi) of the regular subdifferential at t in dom; None = unbounded side"""
        a = self.alpha * self.weight
        if self.positive:
            return [(t > 0, a, a), (t == 0, None, a)]
        return [(t > 0, a, a), (t < 0, -a, -a), (t == 0, -a, a)]


class ENetSpec(PenSpec):
    """alpha * (l1_ratio |t| + (1 - l1_ratio)/2 t^2)"""

    def __init__(self, alpha, l1_ratio, positive=False):
        self.alpha, self.rho, self.positive = alpha, l1_ratio, positive

    def phi(self, t):
        return self.alpha * (self.rho * Abs(t) + (1 - self.rho) * t * t / 2)

    def dom(self, t):
        return t >= 0 if self.positive else True

    def params_ok(self):
        return And(self.alpha >= 0, self.rho >= 0, self.rho <= 1)

    def sub(self, t):
        a, r = self.alpha, self.rho
        q = a * (1 - r) * t
        if self.positive:
            return [(t > 0, a * r + q, a * r + q), (t == 0, None, a * r)]
        return [(t > 0, a * r + q, a * r + q), (t < 0, -a * r + q, -a * r + q), (t == 0, -a * r, a * r)]


class MCPSpec(PenSpec):
    """weight * pen(|t|), pen(x) = alpha x - x^2/(2 gamma) if x <= alpha gamma else gamma alpha^2/2"""
    convex = False

    def __init__(self, alpha, gamma, positive=False, weight=1):
        self.alpha, self.gamma, self.positive, self.weight = alpha, gamma, positive, weight

    def phi(self, t):
        x = Abs(t)
        return self.weight * If(x <= self.alpha * self.gamma, self.alpha * x - x * x / (2 * self.gamma),
                                self.gamma * self.alpha * self.alpha / 2)

    def dom(self, t):
        return t >= 0 if self.positive else True

    def params_ok(self):
        return And(self.alpha >= 0, self.gamma > 0, self.weight >= 0)

    def step_ok(self, s):
        # the prox objective must be strongly convex on the concave part: weight*s/gamma < 1
        return self.weight * s < self.gamma

    def sub(self, t):
        a, g, w = self.alpha, self.gamma, self.weight
        inner = lambda sg: w * (sg * a - t / g)
        big = Abs(t) >= a * g
        out = [(And(t > 0, Not(big)), inner(1), inner(1)), (And(t > 0, big), 0, 0)]
        if self.positive:
            out.append((t == 0, None, w * a))
        else:
            out += [(And(t < 0, Not(big)), inner(-1), inner(-1)), (And(t < 0, big), 0, 0), (t == 0, -w * a, w * a)]
        return out


class SCADSpec(PenSpec):
    convex = False

    def __init__(self, alpha, gamma):
        self.alpha, self.gamma = alpha, gamma

    def phi(self, t):
        x, a, g = Abs(t), self.alpha, self.gamma
        return If(x <= a, a * x,
                  If(x <= a * g, (2 * a * g * x - x * x - a * a) / (2 * (g - 1)), a * a * (g + 1) / 2))

    def params_ok(self):
        return And(self.alpha >= 0, self.gamma > 2)

    def step_ok(self, s):
        return s < self.gamma - 1

    def sub(self, t):
        a, g = self.alpha, self.gamma
        x = Abs(t)
        mid = lambda sg: (sg * a * g - t) / (g - 1)
        return [(t == 0, -a, a),
                (And(t > 0, x <= a), a, a), (And(t < 0, x <= a), -a, -a),
                (And(t > 0, x > a, x <= a * g), mid(1), mid(1)), (And(t < 0, x > a, x <= a * g), mid(-1), mid(-1)),
                (x > a * g, 0, 0)]


class BoxSpec(PenSpec):
    """indicator of [0, alpha]"""
    inf_outside = False     # C08 demands +inf only for positivity constraints; box: feasible points only

    def __init__(self, alpha):
        self.alpha = alpha

    def phi(self, t):
        return 0 * t

    def dom(self, t):
        return And(t >= 0, t <= self.alpha)

    def params_ok(self):
        return self.alpha > 0

    def sub(self, t):
        a = self.alpha
        return [(t == 0, None, 0), (t == a, 0, None), (And(t > 0, t < a), 0, 0)]


class PosSpec(PenSpec):
    """indicator of t >= 0"""

    def phi(self, t):
        return 0 * t

    def dom(self, t):
        return t >= 0

    def params_ok(self):
        return True

    def sub(self, t):
        return [(t == 0, None, 0), (t > 0, 0, 0)]


class LogSumSpec(PenSpec):
    """alpha * log(1 + |t|/eps) (value: numeric only; derivative: algebraic)"""
    convex = False

    def __init__(self, alpha, eps):
        self.alpha, self.eps = alpha, eps

    def phi(self, t):
        return self.alpha * math.log1p(abs(t) / self.eps)

    def params_ok(self):
        return And(self.alpha >= 0, self.eps > 0)

    def sub(self, t):
        a, e = self.alpha, self.eps
        return [(t > 0, a / (e + t), a / (e + t)), (t < 0, -a / (e - t), -a / (e - t)), (t == 0, -a / e, a / e)]


class PowSpec(PenSpec):
    """alpha * |t|^(qn/qd), 0 < qn/qd < 1 (value: numeric only; derivative: algebraic via roots).
    At t = 0 the regular subdifferential is the whole line (infinite slope on both sides)."""
    convex = False

    def __init__(self, alpha, qn, qd=None):
        if qd is None:       # PowSpec(alpha, 0.5) legacy numeric form
            from fractions import Fraction
            f = Fraction(qn).limit_denominator(12)
            qn, qd = f.numerator, f.denominator
        self.alpha, self.qn, self.qd = alpha, qn, qd

    def phi(self, t):
        return self.alpha * abs(t) ** (self.qn / self.qd)

    def params_ok(self):
        return self.alpha >= 0

    def _slope(self, x):
        """d/dx alpha x^(qn/qd) = alpha (qn/qd) x^(qn/qd - 1) for x > 0; here (qn, qd) in {(1,2), (2,3)}"""
        r = Root(x, self.qd)
        # x^(qn/qd - 1) = r^(qn - qd) = 1 / r^(qd - qn)
        den = r
        for _ in range(self.qd - self.qn - 1):
            den = den * r
        return self.alpha * self.qn / (self.qd * den)

    def sub(self, t):
        sp, sn = self._slope(Abs(t)), None
        return [(t > 0, sp, sp), (t < 0, -sp, -sp), (t == 0, None, None)]


def prox_obj(spec, u, x, s):
    """the prox objective 0.5 (u - x)^2 + s * phi(u)"""
    return (u - x) * (u - x) / 2 + s * spec.phi(u)


def dist_to_interval(p, lo, hi):
    """distance from the point p to [lo, hi] (None = unbounded side)"""
    if lo is None and hi is None:
        return 0 * p
    if lo is None:
        return Max(0, p - hi)
    if hi is None:
        return Max(0, lo - p)
    return Max(0, Max(lo - p, p - hi))


# ------------------------------------------------------------------ datafit specs (per-sample loss)

def logistic_loss(y, z, Exp, Log):
    return Log(1 + Exp(-y * z))

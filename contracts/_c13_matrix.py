"""standalone runner of the C13 composition matrix: plain numpy floats, numba JIT disabled (NUMBA_DISABLE_JIT=1 set by
the caller), no symbolic proxy.  usage: python -m contracts._c13_matrix <solver> <shard> <nshards>  -> JSON on stdout"""
import json
import os
import sys

repo = os.environ.get('SKGLM_REPO', '/repo')
if repo not in sys.path:
    sys.path.insert(0, repo)

def _map_numba_dtypes():
    """uncompiled mode only: numba type objects used as numpy dtypes (np.ones(n, bool_)) mean the numpy dtype"""
    import importlib
    import pkgutil
    import numpy as np
    import skglm
    for m in pkgutil.walk_packages(skglm.__path__, 'skglm.'):
        if '.tests' in m.name or 'plot' in m.name:
            continue
        mod = importlib.import_module(m.name)
        for tn, nt in (('bool_', np.bool_), ('float64', np.float64), ('int64', np.int64), ('int32', np.int32), ('float32', np.float32)):
            v = getattr(mod, tn, None)
            if v is not None and type(v).__module__.startswith('numba'):
                setattr(mod, tn, nt)


DATAFITS = ['Quadratic', 'WeightedQuadratic', 'Logistic', 'QuadraticSVC', 'Huber', 'Poisson', 'Gamma', 'Cox', 'QuadraticGroup', 'LogisticGroup']
PENALTIES = ['L1', 'L1_plus_L2', 'WeightedL1', 'MCPenalty', 'WeightedMCPenalty', 'SCAD', 'IndicatorBox', 'L0_5', 'L2_3', 'LogSumPenalty', 'PositiveConstraint', 'L2', 'SLOPE', 'WeightedGroupL2']

def _components(n, p, rng):
    import numpy as np
    import skglm.datafits as D
    import skglm.penalties as P
    from skglm.utils.data import grp_converter
    gi, gp = grp_converter(2, p)
    dfs = {
        'Quadratic': (lambda: D.Quadratic(), 'real'), 'WeightedQuadratic': (lambda: D.WeightedQuadratic(np.abs(rng.randn(n)) + .1), 'real'),
        'Logistic': (lambda: D.Logistic(), 'pm1'), 'QuadraticSVC': (lambda: D.QuadraticSVC(), 'pm1'), 'Huber': (lambda: D.Huber(1.), 'real'),
        'Poisson': (lambda: D.Poisson(), 'count'), 'Gamma': (lambda: D.Gamma(), 'pos'), 'Cox': (lambda: D.Cox(), 'surv'),
        'QuadraticGroup': (lambda: D.QuadraticGroup(gp, gi), 'real'), 'LogisticGroup': (lambda: D.LogisticGroup(gp, gi), 'pm1'),
    }
    pens = {
        'L1': lambda: P.L1(.1), 'L1_plus_L2': lambda: P.L1_plus_L2(.1, .5), 'WeightedL1': lambda: P.WeightedL1(.1, np.ones(p)),
        'MCPenalty': lambda: P.MCPenalty(.1, 3.), 'WeightedMCPenalty': lambda: P.WeightedMCPenalty(.1, 3., np.ones(p)),
        'SCAD': lambda: P.SCAD(.1, 3.), 'IndicatorBox': lambda: P.IndicatorBox(1.), 'L0_5': lambda: P.L0_5(.1), 'L2_3': lambda: P.L2_3(.1),
        'LogSumPenalty': lambda: P.LogSumPenalty(.1, 1.), 'PositiveConstraint': lambda: P.PositiveConstraint(), 'L2': lambda: P.L2(.1),
        'SLOPE': lambda: P.SLOPE(np.full(p, .1)), 'WeightedGroupL2': lambda: P.WeightedGroupL2(.1, np.ones(len(gp) - 1), gp, gi),
    }
    return dfs, pens


def run_matrix(solver, shard):
    """uncompiled run of the REAL solve() over datafit x penalty x {dense, CSC} x {fit_intercept}: each cell must either raise an
    AttributeError/ValueError with a message, or return finite values"""
    import warnings
    import numpy as np
    from scipy import sparse as sps
    import skglm.solvers as S
    _map_numba_dtypes()
    n, p = 7, 4
    bad, cells = [], 0
    k = -1
    for dname in DATAFITS:
        for pname in PENALTIES:
            for sp in (False, True, 'array'):
                if sp == 'array' and (pname != PENALTIES[0] or not hasattr(sps, 'csc_array')):
                    continue        # the newer scipy container (csc_array): one representative penalty per datafit
                for fi in (False, True):
                    k += 1
                    if k % shard[1] != shard[0]:
                        continue
                    rng = np.random.RandomState(k)
                    dfs, pens = _components(n, p, rng)
                    X = rng.randn(n, p)
                    mk, kind = dfs[dname]
                    y = rng.randn(n)
                    if kind == 'pm1':
                        y = np.sign(y)
                        y[y == 0] = 1.
                    elif kind == 'count':
                        y = np.abs(np.round(3 * y))
                    elif kind == 'pos':
                        y = np.abs(y) + .1
                    elif kind == 'surv':
                        y = np.c_[np.abs(y) + .1, (rng.rand(n) < .7).astype(float)]
                    Xin = (sps.csc_array(X) if sp == 'array' else sps.csc_matrix(X)) if sp else np.asfortranarray(X)
                    kw = {}
                    cls = getattr(S, solver)
                    import inspect
                    sig = inspect.signature(cls.__init__).parameters
                    if 'fit_intercept' in sig:
                        kw['fit_intercept'] = fi
                    elif fi:
                        continue
                    if 'max_iter' in sig:
                        kw['max_iter'] = 3
                    if 'max_epochs' in sig:
                        kw['max_epochs'] = 8
                    if 'max_pn_iter' in sig:
                        kw['max_pn_iter'] = 5
                    cells += 1
                    cell = f'{dname}+{pname}[{("csc_array" if sp == "array" else "csc") if sp else "dense"},fit_intercept={fi}]'
                    try:
                        with warnings.catch_warnings():
                            warnings.simplefilter('ignore')
                            df, pen = mk(), pens[pname]()
                            if solver == 'GramCD':
                                out = cls(**kw).solve(Xin, y, None if dname == 'Quadratic' else df, pen)
                            else:
                                if hasattr(df, 'initialize'):
                                    (df.initialize_sparse(Xin.data, Xin.indptr, Xin.indices, y) if sp and hasattr(df, 'initialize_sparse')
                                     else df.initialize(X, y))
                                out = cls(**kw).solve(Xin, y, df, pen)
                        w, objs, stop = out
                        if not np.all(np.isfinite(np.asarray(w, dtype=float))) or not np.isfinite(float(stop)) and float(stop) != float('inf'):
                            bad.append((cell, f'non-finite output w={np.asarray(w).tolist()} stop={stop}'))
                    except (AttributeError, ValueError) as ex:
                        # a designed refusal is RAISED BY skglm (validation layer, custom_checks, shape / domain checks) with a message;
                        # the same exception types escaping from numpy / scipy internals are crashes, not refusals
                        tb = ex.__traceback__
                        while tb.tb_next is not None:
                            tb = tb.tb_next
                        origin = tb.tb_frame.f_code.co_filename
                        if not str(ex).strip():
                            bad.append((cell, f'{type(ex).__name__} without a message'))
                        elif os.sep + 'skglm' + os.sep not in origin:
                            bad.append((cell, f'{type(ex).__name__} raised inside {os.path.basename(origin)} (not by skglm): {str(ex)[:120]}'))
                    except Exception as ex:     # noqa
                        bad.append((cell, f'{type(ex).__name__}: {str(ex)[:160]}'))
    return dict(cells=cells, bad=bad)


if __name__ == '__main__':
    print(json.dumps(run_matrix(sys.argv[1], (int(sys.argv[2]), int(sys.argv[3])))))

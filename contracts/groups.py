"""Group penalties with an explicit group layout (bounded: B): WeightedGroupL2 and WeightedL1GroupL2 on the
non-contiguous layout grp_ptr = [0, 2, 3], grp_indices = [1, 0, 2] (group 0 = features {1, 0}, group 1 = {2}: no group index coincides with its feature index),
all real values of w, gradients, weights, hyper-parameters; both positivity flags.

  value            == alpha * sum_g weights_g ||w_[g]||   (+inf exactly when positive and some w_j < 0)      C04 C08 C11
  prox_1group      global minimiser of 0.5||u-x||^2 + s*alpha*weights_g ||u||  (u >= 0 when positive)       C07
  subdiff_distance distance from -grad_g to the subdifferential of  alpha*weights_g||.|| (+ cone of u >= 0)   C08
  generalized_support / is_penalized                                                                          C01
  WeightedL1GroupL2.value / prox_1group (sparse-group: per-FEATURE l1 weights, per-group l2 weight)           C07
"""
import itertools

import numpy as np

from pv.core import add_task

BLK = 'skglm.penalties.block_separable'
GP = np.array([0, 2, 3], dtype=np.int32)
GI = np.array([1, 0, 2], dtype=np.int32)
GROUPS = [[1, 0], [2]]


def _mk(positive):
    import z3
    from pv import sym, symrun
    from .catalog import objarr
    WG = symrun.get(BLK, 'WeightedGroupL2')
    a = z3.Real('alpha')
    wt = [z3.Real('wt0'), z3.Real('wt1')]
    R = sym.SymReal
    return (lambda: WG(R(a), objarr([R(wt[0]), R(wt[1])]), GP, GI, positive)), a, wt


def wgl2_value_task(T, positive):
    import z3
    from pv import sym, symrun
    from pv.sproof import check_contract, zpre
    symrun.install()
    mk, a, wt = _mk(positive)
    w = [z3.Real(f'w{i}') for i in range(3)]
    R = sym.SymReal
    pre = zpre([a >= 0, wt[0] >= 0, wt[1] >= 0])
    feas = z3.And(*[t >= 0 for t in w]) if positive else z3.BoolVal(True)
    n0, n1 = z3.Real('n0'), z3.Real('n1')
    aux = [n0 >= 0, n0 * n0 == w[1] * w[1] + w[0] * w[0], n1 >= 0, n1 * n1 == w[2] * w[2]]

    def post(out, p):
        if sym.is_inf(out):
            return [('inf-only-at-infeasible-points', [], z3.Not(feas))]
        return [('finite-only-at-feasible-points', [], feas),
                ('==alpha*sum_g weights_g*norm(w_g)', aux + [feas], sym.lift(out) == a * (wt[0] * n0 + wt[1] * n1))]
    check_contract(T, 'value', lambda: mk().value(np.array([R(t) for t in w], dtype=object)), pre, post, strength='B',
                   replay=dict(fn='contracts.groups:replay_wgl2', args=dict(positive=positive, method='value')))


def wgl2_prox_task(T, positive, g):
    import z3
    from pv import sym, symrun
    from pv.sproof import check_contract, zpre
    symrun.install()
    mk, a, wt = _mk(positive)
    d = len(GROUPS[g])
    x = [z3.Real(f'x{i}') for i in range(d)]
    v = [z3.Real(f'v{i}') for i in range(d)]
    s = z3.Real('s')
    R = sym.SymReal
    pre = zpre([a >= 0, wt[0] >= 0, wt[1] >= 0, s > 0])
    nv, nr = z3.Real('norm_v'), z3.Real('norm_r')
    thr = s * a * wt[g]

    def post(out, p):
        r = [sym.lift(t) for t in np.asarray(out, dtype=object).ravel()]
        hy = [nv >= 0, nv * nv == z3.Sum([t * t for t in v]), nr >= 0, nr * nr == z3.Sum([t * t for t in r])]
        sq = lambda u: z3.Sum([(u[i] - x[i]) * (u[i] - x[i]) for i in range(d)]) / 2
        cs = []
        if positive:
            cs.append(('result-nonnegative', [], z3.And(*[t >= 0 for t in r])))
            hy = hy + [t >= 0 for t in v]
        cs.append(('global-min', hy, sq(r) + thr * nr <= sq(v) + thr * nv))
        return cs
    check_contract(T, f'prox_1group[g={g}]', lambda: mk().prox_1group(np.array([R(t) for t in x], dtype=object), R(s), g), pre, post,
                   strength='B', replay=dict(fn='contracts.groups:replay_wgl2', args=dict(positive=positive, method='prox', g=g)))


def wgl2_subdiff_task(T, positive, ws):
    import z3
    from pv import sym, symrun
    from pv.sproof import check_contract, zpre
    symrun.install()
    mk, a, wt = _mk(positive)
    w = [z3.Real(f'w{i}') for i in range(3)]
    R = sym.SymReal
    ng = sum(len(GROUPS[g]) for g in ws)
    gr = [z3.Real(f'g{i}') for i in range(ng)]
    pre = zpre([a >= 0, wt[0] >= 0, wt[1] >= 0])

    def post(out, p):
        cs = []
        ptr = 0
        for idx, g in enumerate(ws):
            feats = GROUPS[g]
            wg = [w[j] for j in feats]
            gg = gr[ptr:ptr + len(feats)]
            ptr += len(feats)
            o = out[idx]
            th = a * wt[g]
            nwg = z3.Real(f'nw{g}')
            aux = [nwg >= 0, nwg * nwg == z3.Sum([t * t for t in wg])]
            infeas = z3.Or(*[t < 0 for t in wg]) if positive else z3.BoolVal(False)
            if sym.is_inf(o):
                cs.append((f'[{idx}]inf-only-if-infeasible', [], infeas))
                continue
            oe = sym.lift(o)
            cs.append((f'[{idx}]finite-only-if-feasible', [], z3.Not(infeas)))
            zero = z3.And(*[t == 0 for t in wg])
            if positive:
                pp = [z3.If(-t >= 0, -t, 0) for t in gg]          # positive part of -grad
                npp = z3.Real(f'npp{g}')
                cs.append((f'[{idx}]distance[zero-group]', aux + [zero, npp >= 0, npp * npp == z3.Sum([t * t for t in pp])],
                           oe == z3.If(npp - th >= 0, npp - th, 0)))
                comp = [z3.If(wg[k] > 0, -gg[k] - th * wg[k] / nwg, z3.If(-gg[k] >= 0, -gg[k], 0)) for k in range(len(feats))]
                cs.append((f'[{idx}]distance[active-group]', aux + [z3.Not(zero), z3.Not(infeas)],
                           z3.And(oe >= 0, oe * oe == z3.Sum([t * t for t in comp]))))
            else:
                ngg = z3.Real(f'ngr{g}')
                cs.append((f'[{idx}]distance[zero-group]', aux + [zero, ngg >= 0, ngg * ngg == z3.Sum([t * t for t in gg])],
                           oe == z3.If(ngg - th >= 0, ngg - th, 0)))
                comp = [gg[k] + th * wg[k] / nwg for k in range(len(feats))]
                cs.append((f'[{idx}]distance[active-group]', aux + [z3.Not(zero)],
                           z3.And(oe >= 0, oe * oe == z3.Sum([t * t for t in comp]))))
        return cs
    tag = ''.join(map(str, ws))
    check_contract(T, f'subdiff_distance[ws={tag}]',
                   lambda: mk().subdiff_distance(np.array([R(t) for t in w], dtype=object), np.array([R(t) for t in gr], dtype=object),
                                                 np.array(ws)), pre, post, strength='B',
                   replay=dict(fn='contracts.groups:replay_wgl2', args=dict(positive=positive, method='subdiff', ws=list(ws))))


def wgl2_support_task(T, positive):
    import z3
    from pv import sym, symrun
    from pv.sproof import check_contract, zpre
    symrun.install()
    mk, a, wt = _mk(positive)
    w = [z3.Real(f'w{i}') for i in range(3)]
    R = sym.SymReal

    def post(out, p):
        return [(f'[{g}]group-in-support-iff-some-coefficient-nonzero', [],
                 z3.BoolVal(bool(out[g])) == z3.Or(*[w[j] != 0 for j in GROUPS[g]])) for g in range(2)]
    check_contract(T, 'generalized_support', lambda: mk().generalized_support(np.array([R(t) for t in w], dtype=object)), [], post,
                   strength='B', safety=False)


for _p in (False, True):
    add_task(['C08', 'C04', 'C11'], f'block_separable:WeightedGroupL2[positive={_p}].value', wgl2_value_task, strength='B', positive=_p)
    for _g in (0, 1):
        if not _p and _g == 0:
            continue        # positive=False: dimension-free proof through the Gram abstraction (wgl2_gram_task)
        add_task(['C07', 'C04'], f'block_separable:WeightedGroupL2[positive={_p}].prox_1group[g={_g}]', wgl2_prox_task, strength='B',
                 tier=('thorough' if _g == 0 else 'quick'), positive=_p, g=_g)
    for _ws in ((1, 0), (0, 1), (1,)):
        add_task(['C08', 'C20'], f'block_separable:WeightedGroupL2[positive={_p}].subdiff_distance[ws={"".join(map(str, _ws))}]',
                 wgl2_subdiff_task, strength='B', positive=_p, ws=_ws)
    add_task(['C01', 'C05'], f'block_separable:WeightedGroupL2[positive={_p}].generalized_support', wgl2_support_task, strength='B', positive=_p)


def wgl2_gram_task(T):
    """WeightedGroupL2(positive=False).prox_1group on an abstract vector: global minimiser of
    0.5||u-x||^2 + s*alpha*weights_g*||u|| against any competitor, any dimension (Gram abstraction) [U]"""
    import z3
    from pv import sym, symrun
    from pv.symvec import Gram
    from pv.sproof import check_contract, zpre
    symrun.install()
    mk, a, wt = _mk(False)
    s = z3.Real('s')
    gram = Gram(['x', 'v'])
    nv = z3.Real('norm_v')
    pre = zpre([a >= 0, wt[0] >= 0, wt[1] >= 0, s > 0]) + gram.psd_constraints() + [nv >= 0, nv * nv == gram.ip('v', 'v')]
    thr = s * a * wt[1]
    d_v = (gram.gen('v') - gram.gen('x')).sqnorm().e

    def build():
        return mk().prox_1group(gram.gen('x'), sym.SymReal(s), 1), gram.gen('x').norm()

    def post(out, p):
        r, nxs = out
        nx = nxs.e
        c = sym.lift(r.coefs.get('x', 0))
        extra = [k for k in r.coefs if k != 'x']
        nr = c * nx
        d_r = (r - gram.gen('x')).sqnorm().e
        return [('result-is-a-nonnegative-multiple-of-x', [], z3.And(c >= 0, z3.BoolVal(not extra))),
                ('global-min', [], d_r / 2 + thr * nr <= d_v / 2 + thr * nv)]
    check_contract(T, 'prox_1group', build, pre, post, strength='U')


add_task('C07', 'block_separable:WeightedGroupL2[positive=False].prox_1group[gram]', wgl2_gram_task)


def sparse_group_task(T, g, shard=None):
    """WeightedL1GroupL2: value and prox_1group (prox of  s*alpha*(sum_j wf_j |u_j| + wg ||u||)  = BST o ST, per-FEATURE weights)"""
    import z3
    from pv import sym, symrun
    from pv.sproof import check_contract, zpre
    from .catalog import objarr
    symrun.install()
    K = symrun.get(BLK, 'WeightedL1GroupL2')
    R = sym.SymReal
    a, s = z3.Real('alpha'), z3.Real('s')
    wg = [z3.Real('wg0'), z3.Real('wg1')]
    wf = [z3.Real(f'wf{i}') for i in range(3)]
    feats = GROUPS[g]
    d = len(feats)
    x = [z3.Real(f'x{i}') for i in range(d)]
    v = [z3.Real(f'v{i}') for i in range(d)]
    pre = zpre([a >= 0, s > 0] + [t >= 0 for t in wg + wf])
    mk = lambda: K(R(a), objarr([R(t) for t in wg]), objarr([R(t) for t in wf]), GP, GI)
    if g == 0:
        w = [z3.Real(f'w{i}') for i in range(3)]
        n0, n1 = z3.Real('n0'), z3.Real('n1')
        aux = [n0 >= 0, n0 * n0 == w[1] * w[1] + w[0] * w[0], n1 >= 0, n1 * n1 == w[2] * w[2]]
        ab = lambda t: z3.If(t >= 0, t, -t)
        check_contract(T, 'value', lambda: mk().value(np.array([R(t) for t in w], dtype=object)), pre,
                       lambda out, p: [('==alpha*(sum_g wg_g||w_g|| + sum_j wf_j|w_j|)', aux,
                                        sym.lift(out) == a * (wg[0] * n0 + wg[1] * n1 + z3.Sum([wf[j] * ab(w[j]) for j in range(3)])))],
                       strength='B')
    nv, nr = z3.Real('norm_v'), z3.Real('norm_r')

    def post(out, p):
        r = [sym.lift(t) for t in np.asarray(out, dtype=object).ravel()]
        ab = lambda t: z3.If(t >= 0, t, -t)
        hy = [nv >= 0, nv * nv == z3.Sum([t * t for t in v]), nr >= 0, nr * nr == z3.Sum([t * t for t in r])]
        pen = lambda u, nu: s * a * (wg[g] * nu + z3.Sum([wf[feats[k]] * ab(u[k]) for k in range(d)]))
        sq = lambda u: z3.Sum([(u[i] - x[i]) * (u[i] - x[i]) for i in range(d)]) / 2
        return [('global-min(per-feature-l1-weights)', hy, sq(r) + pen(r, nr) <= sq(v) + pen(v, nv))]
    check_contract(T, f'prox_1group[g={g}]', lambda: mk().prox_1group(np.array([R(t) for t in x], dtype=object), R(s), g), pre, post,
                   strength='B', shard=shard, replay=dict(fn='contracts.groups:replay_sparse_group', args=dict(g=g)))


add_task('C07', 'block_separable:WeightedL1GroupL2.prox_1group[g=1]', sparse_group_task, strength='B', g=1)


def sparse_group_formula_task(T, g):
    """WeightedL1GroupL2.prox_1group(x, s, g) against its documented composition (function against spec function):
        soft-threshold every coordinate k of the group at  s * alpha * weights_features[FEATURE of coordinate k],
        then block soft-threshold the result at  s * alpha * weights_groups[g]
    on the asymmetric layout (group 0 = features (1, 0): a positional slice of the feature weights is NOT the same).  That this
    composition is the global minimiser is the (extended-tier, not completed) task above; sound for g = 1 (quick tier)."""
    import z3
    from pv import sym, symrun
    from pv.sproof import check_contract, zpre
    from .catalog import objarr
    symrun.install()
    K = symrun.get('skglm.penalties.block_separable', 'WeightedL1GroupL2')
    R, L = sym.SymReal, sym.lift
    feats = GROUPS[g]
    d = len(feats)
    a, s = z3.Real('alpha'), z3.Real('s')
    wg = [z3.Real('wg0'), z3.Real('wg1')]
    wf = [z3.Real(f'wf{i}') for i in range(3)]
    x = [z3.Real(f'x{i}') for i in range(d)]
    pre = zpre([a >= 0, s > 0] + [t >= 0 for t in wg + wf])
    st = []
    for k in range(d):
        thr = s * a * wf[feats[k]]
        st.append(z3.If(x[k] > thr, x[k] - thr, z3.If(x[k] < -thr, x[k] + thr, 0)))
    nst = z3.Real('norm_of_soft_thresholded')
    u = s * a * wg[g]
    hy = [nst >= 0, nst * nst == z3.Sum([t * t for t in st])]

    def post(out, p):
        if T.prop == 'C19':
            return []             # C19: the safety obligations only (zero weights and zero coordinates are inside the domain)
        r = [L(t) for t in np.asarray(out, dtype=object).ravel()]
        return [(f'[{k}]==BST(ST(x,s.alpha.wf[features-of-the-group]),s.alpha.wg[g])', hy,
                 r[k] == z3.If(nst <= u, 0, (1 - u / nst) * st[k])) for k in range(d)]
    check_contract(T, f'prox_1group[g={g}]==documented-composition',
                   lambda: K(R(a), objarr([R(t) for t in wg]), objarr([R(t) for t in wf]), GP, GI).prox_1group(
                       np.array([R(t) for t in x], dtype=object), R(s), g), pre, post, strength='B',
                   replay=dict(fn='contracts.groups:replay_sparse_group', args=dict(g=g)))


for _g in (0, 1):
    add_task(['C07', 'C08', 'C15', 'C19'], f'block_separable:WeightedL1GroupL2.prox_1group[g={_g}]==ST-then-BST', sparse_group_formula_task, strength='B', g=_g)
for _k in range(8):
    # group of two features: 4 of its 113 path obligations stay undecided after 7 minutes each (z3 + cvc5): NOT claimed; kept runnable
    # with `--tier extended`, in no MANIFEST tier
    add_task('C07', f'block_separable:WeightedL1GroupL2.prox_1group[g=0]#{_k}', sparse_group_task, strength='B', tier='extended', g=0,
             shard=(_k, 8))


# ----------------------------------------------------------------------------- native replay

def _f(model, n, d=0.5):
    from .c07 import _fl
    return _fl(model, n, d)


def replay_wgl2(args, model):
    from skglm.penalties import WeightedGroupL2
    from skglm.utils.jit_compilation import compiled_clone
    pos = args['positive']
    a = _f(model, 'alpha', 1.0)
    wt = np.array([_f(model, 'wt0', 1.0), _f(model, 'wt1', 1.0)])
    pen = compiled_clone(WeightedGroupL2(a, wt, GP, GI, pos))
    w = np.array([_f(model, f'w{i}', 0.) for i in range(3)])
    inputs = dict(alpha=a, weights=wt.tolist(), w=w.tolist(), positive=pos, grp_ptr=GP.tolist(), grp_indices=GI.tolist())
    try:
        if args['method'] == 'value':
            out = float(pen.value(w))
            exp = float('inf') if (pos and np.any(w < 0)) else a * sum(wt[g] * np.linalg.norm(w[GROUPS[g]]) for g in range(2))
            bad = (out != exp) if np.isinf(out) or np.isinf(exp) else abs(out - exp) > 1e-9 * (1 + abs(exp))
            return dict(confirmed=bool(bad), detail=f'value={out} documented={exp}', inputs=inputs)
        if args['method'] == 'prox':
            g = args['g']
            d = len(GROUPS[g])
            x = np.array([_f(model, f'x{i}') for i in range(d)])
            s = _f(model, 's', 1.0)
            v = np.array([_f(model, f'v{i}', 0.) for i in range(d)])
            r = np.asarray(pen.prox_1group(x.copy(), s, g))
            obj = lambda u: 0.5 * np.sum((u - x) ** 2) + s * a * wt[g] * np.linalg.norm(u)
            cands = [v, np.zeros(d), x] + [np.array(c) for c in itertools.product(np.linspace(-2, 2, 41), repeat=d)]
            if pos:
                cands = [c for c in cands if np.all(c >= 0)]
            best = min(cands, key=obj)
            bad = (not np.all(np.isfinite(r))) or (pos and np.any(r < 0)) or obj(r) > obj(best) + 1e-9 * (1 + abs(obj(best)))
            return dict(confirmed=bool(bad), detail=f'prox={r.tolist()} obj={obj(r)}; competitor {best.tolist()} obj={obj(best)}',
                        inputs=dict(inputs, x=x.tolist(), s=s))
        if args['method'] == 'subdiff':
            ws = np.array(args['ws'])
            ng = sum(len(GROUPS[g]) for g in ws)
            gr = np.array([_f(model, f'g{i}', 0.) for i in range(ng)])
            out = np.asarray(pen.subdiff_distance(w, gr, ws))
            exp, ptr = [], 0
            for g in ws:
                f = GROUPS[g]
                wg_, gg = w[f], gr[ptr:ptr + len(f)]
                ptr += len(f)
                th = a * wt[g]
                if pos and np.any(wg_ < 0):
                    exp.append(np.inf)
                elif not np.any(wg_):
                    exp.append(max(0., np.linalg.norm(np.maximum(-gg, 0) if pos else gg) - th))
                else:
                    nw = np.linalg.norm(wg_)
                    comp = [(-gg[k] - th * wg_[k] / nw) if (wg_[k] > 0 or not pos) else max(-gg[k], 0) for k in range(len(f))]
                    exp.append(np.linalg.norm(comp))
            exp = np.array(exp)
            bad = np.any(np.isinf(out) != np.isinf(exp)) or np.any(np.abs(out[np.isfinite(exp)] - exp[np.isfinite(exp)]) > 1e-8 * (1 + np.abs(exp[np.isfinite(exp)])))
            return dict(confirmed=bool(bad), detail=f'subdiff_distance={out.tolist()} expected={exp.tolist()}', inputs=dict(inputs, grad=gr.tolist(), ws=ws.tolist()))
    except Exception as ex:     # noqa
        return dict(confirmed=True, detail=f'raised {type(ex).__name__}: {ex}', inputs=inputs)
    return dict(confirmed=False, detail='no replay', inputs=inputs)


def replay_sparse_group(args, model):
    from skglm.penalties import WeightedL1GroupL2
    from skglm.utils.jit_compilation import compiled_clone
    g = args['g']
    feats = GROUPS[g]
    d = len(feats)
    a, s = _f(model, 'alpha', 1.0), _f(model, 's', 1.0)
    wg = np.array([_f(model, 'wg0', 1.0), _f(model, 'wg1', 1.0)])
    wf = np.array([_f(model, f'wf{i}', 1.0) for i in range(3)])
    x = np.array([_f(model, f'x{i}') for i in range(d)])
    pen = compiled_clone(WeightedL1GroupL2(a, wg, wf, GP, GI))
    r = np.asarray(pen.prox_1group(x.copy(), s, g))
    obj = lambda u: 0.5 * np.sum((u - x) ** 2) + s * a * (wg[g] * np.linalg.norm(u) + np.sum(wf[feats] * np.abs(u)))
    cands = [np.zeros(d), x] + [np.array(c) for c in itertools.product(np.linspace(-3, 3, 61), repeat=d)]
    best = min(cands, key=obj)
    bad = obj(r) > obj(best) + 1e-9 * (1 + abs(obj(best)))
    return dict(confirmed=bool(bad), detail=f'prox={r.tolist()} obj={obj(r)}; competitor {best.tolist()} obj={obj(best)}',
                inputs=dict(alpha=a, s=s, weights_groups=wg.tolist(), weights_features=wf.tolist(), x=x.tolist(), g=g))

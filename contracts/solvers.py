"""Opaque-mode verification of the solver orchestrators (`*._solve`): shared driver for C01, C05, C17.

For every solver, the REAL `_solve` text is interpreted by pv/struct.py against the call contracts of
contracts/solver_calls.py, for each entry configuration (cold start / warm start), and on every path
reaching `return` the postconditions below become SMT obligations:

  C01  cert-fresh      stop_crit <= tol  ==>  forall j: SCORE(w_ret, Xw_ret, j) <= stop_crit   (all features/groups,
                       computed from the CURRENT versions of the returned coefficients and model fit)
       cert-intercept  fit_intercept ==> |d/db F(Xw_ret)| <= stop_crit
       inv             Xw_ret == X w_ret[:p] + w_ret[p]            (ghost residual tracking; loop invariant by Houdini)
       site obligations raised where an extrapolated point is copied into (w, Xw)
  C05  buffer          with a warm start the certified model-fit buffer is the caller's Xw_init and the returned
                       coefficients are the caller's w_init (in-place contract that `path` relies on)
  C17  obj-is-list / obj-count / obj-last   one entry per completed outer iteration, the last one being
                       datafit.value + penalty.value(w[:n_features]) of the returned point
"""
import os

import z3

from pv import struct as S
from pv.struct import (SInt, SReal, SBool, SStr, SNone, SInf, STuple, SList, SArr, SObj, SOpaque, to_real, to_int,
                       selr, seli, alen, fresh, I, R, B)
from . import solver_calls as C

REPO = os.environ.get('SKGLM_REPO', '/repo')

COMMON = dict(max_iter='int', tol='real', fit_intercept='bool', warm_start='bool', verbose='int')
SOLVERS = {
    'AndersonCD': dict(file='skglm/solvers/anderson_cd.py', qual='AndersonCD._solve',
                       fields=dict(COMMON, max_epochs='int', p0='int', ws_strategy='str'), items='n_features'),
    'ProxNewton': dict(file='skglm/solvers/prox_newton.py', qual='ProxNewton._solve',
                       fields=dict(COMMON, max_pn_iter='int', p0='int', ws_strategy='str'), items='n_features'),
    'GroupBCD': dict(file='skglm/solvers/group_bcd.py', qual='GroupBCD._solve',
                     fields=dict(COMMON, max_epochs='int', p0='int', ws_strategy='str'), items='n_groups'),
    'GramCD': dict(file='skglm/solvers/gram_cd.py', qual='GramCD._solve',
                   fields=dict(COMMON, use_acc='bool', greedy_cd='bool'), items='n_features', no_xw=True),
    'GroupProxNewton': dict(file='skglm/solvers/group_prox_newton.py', qual='GroupProxNewton._solve',
                            fields=dict(COMMON, max_pn_iter='int', p0='int'), items='n_groups',
                            calls={'_descent_direction': C.descent_direction(2, 3, 8, n_out=2)}),
}


class ListLenInv:
    """candidate invariant: len(list) == len_at_entry + <loop counter>"""

    def __init__(self, name):
        self.name, self.alive = name, True

    def establish(self, ip, st):
        self.n0 = st.lists[st.env[self.name].loc]['n']

    def assume(self, ip, g, it):
        L = g.lists[g.env[self.name].loc]
        g.pc.append(L['n'] == self.n0 + it)

    def preserved(self, ip, ends, it):
        for e in ends:
            L = e.lists[e.env[self.name].loc]
            so = z3.Solver()
            so.set('timeout', 3000)
            so.add(*e.pc, L['n'] != self.n0 + it + 1)
            if so.check() != z3.unsat:
                return False
        return True


class PairInv:
    """candidate invariant: the (w, Xw) pair is consistent (residual 0) at the loop head"""

    def __init__(self, key):
        self.key, self.alive = key, True

    def establish(self, ip, st):
        pr = C.pairs(st)[self.key]
        so = z3.Solver()
        so.set('timeout', 3000)
        so.add(*st.pc, z3.Not(z3.And(pr['ok'], pr['rho'] == 0)))
        if so.check() != z3.unsat:
            self.alive = False

    def assume(self, ip, g, it):
        C.pairs(g)[self.key] = dict(ok=z3.BoolVal(True), rho=z3.RealVal(0))

    def preserved(self, ip, ends, it):
        for e in ends:
            pr = C.pairs(e).get(self.key)
            if pr is None:
                return False
            so = z3.Solver()
            so.set('timeout', 3000)
            so.add(*e.pc, z3.Not(z3.And(pr['ok'], pr['rho'] == 0)))
            if so.check() != z3.unsat:
                return False
        return True


class ZoutInv:
    """candidate invariant: array A is zero outside the index set idx (idx not written in the loop)"""

    def __init__(self, aloc, iloc):
        self.aloc, self.iloc, self.alive = aloc, iloc, True

    def _holds(self, st):
        f = C.flags(st).get(self.aloc)
        if f and f[0] == 'zero' and f[1].eq(st.heap[self.aloc]):
            return True
        z = st.ghost.get('zout', {}).get(self.aloc) or []
        return any(pz[0] == self.iloc and pz[1].eq(st.heap[self.iloc]) for pz in z)

    def establish(self, ip, st):
        if not self._holds(st):
            self.alive = False

    def assume(self, ip, g, it):
        zo = g.ghost.setdefault('zout', {})
        zo[self.aloc] = list(zo.get(self.aloc) or []) + [(self.iloc, g.heap[self.iloc])]

    def preserved(self, ip, ends, it):
        return all(self._holds(e) for e in ends)


class ScoreInv:
    """candidate invariant: the array bound to `name` holds the scores of the CURRENT coefficient / model-fit versions
    (solvers that compute the next iteration's stopping value at the end of the previous one)"""

    def __init__(self, name):
        self.name, self.alive = name, True

    def _event(self, st):
        v = st.env.get(self.name)
        if not isinstance(v, SArr):
            return None
        for e in reversed(st.events):
            if e['kind'] == 'score' and e['out'] == v.loc:
                ok = e['grad_ok'] and st.heap[v.loc].eq(e.get('outv', st.heap[v.loc])) and e['wv'].eq(st.heap[e['wloc']]) \
                    and e['xv'].eq(st.heap[e['xloc']])
                return e if ok else None
        return None

    def establish(self, ip, st):
        e = self._event(st)
        if e is None:
            self.alive = False
        else:
            self.tmpl = e

    def assume(self, ip, g, it):
        e = self.tmpl
        o = SArr(g.newloc('opt', e['wlen']))
        g.env[self.name] = o
        ov, wv, xv, wsv = g.ver(o), g.heap[e['wloc']], g.heap[e['xloc']], g.heap[e['ws']]
        g.qfacts.append(lambda k, ov=ov, wv=wv, xv=xv, wsv=wsv, e=e: selr(ov, k) == C.SCORE(wv, e['lo'], xv, seli(wsv, k), e['strat'], e['aux']))
        g.events.append(dict(e, out=o.loc, wv=wv, xv=xv, wsv=wsv, line=None))

    def preserved(self, ip, ends, it):
        return all(self._event(e) is not None for e in ends)


def loop_invariants(ip, st, node):
    import ast
    cands = []
    appended = set()
    for x in ast.walk(node):
        if isinstance(x, ast.Call) and isinstance(x.func, ast.Attribute) and x.func.attr == 'append' \
                and isinstance(x.func.value, ast.Name):
            appended.add(x.func.value.id)
    for nm in appended:
        if isinstance(st.env.get(nm), SList):
            cands.append(ListLenInv(nm))
    # candidate (w, Xw) pairs: every two pristine arrays (both all-zero, or the caller's warm-start pair)
    fl = C.flags(st)
    live = [(loc, f) for loc, f in fl.items() if f[1].eq(st.heap.get(loc))]
    for la, fa in live:
        for lb, fb in live:
            if la != lb and ((fa[0] == 'zero' and fb[0] == 'zero') or (fa[0] == 'entry' and fb[0] == 'entry' and fa[2] == lb
                                                                        and st.ghost.get('entry') == (la, lb))):
                C.get_pair(st, la, lb)
    # Gram-form gradients (grad = G w - c) pair with the coefficient array they were computed from
    for nm, v in st.env.items():
        if isinstance(v, SArr) and v.kind == 'r' and C.gram_tag(st, v.loc) is not None:
            for la, fa in live:
                if la != v.loc:
                    C.get_pair(st, la, v.loc)
    for key in list(C.pairs(st)):
        cands.append(PairInv(key))
    names, arrs = ip.writes(node.body)
    for nm, v in st.env.items():
        if isinstance(v, SArr) and nm in names and any(e['kind'] == 'score' and e['out'] == v.loc for e in st.events):
            cands.append(ScoreInv(nm))
    idxs = [v.loc for nm, v in st.env.items() if isinstance(v, SArr) and v.kind == 'i' and nm not in names and nm not in arrs]
    for nm, v in st.env.items():
        if isinstance(v, SArr) and v.kind == 'r' and nm in arrs:
            for il in set(idxs):
                cands.append(ZoutInv(v.loc, il))
    return cands


class SolverInterp(S.Interp):
    def mark(self):
        return len(C.SITE_OBLS)

    def reset_to(self, m):
        del C.SITE_OBLS[m:]

    def havoc(self, st, names, arrs, node):
        locs = set()
        for nm in arrs:
            v = st.env.get(nm)
            if isinstance(v, SArr):
                locs.add(v.loc)
        super().havoc(st, names, arrs, node)
        for loc in locs:
            C.flags(st).pop(loc, None)
            st.ghost.setdefault('copyof', {}).pop(loc, None)
            C.prov(st).pop(loc, None)
        for (wl, xl), pr in C.pairs(st).items():
            if wl in locs or xl in locs:
                pr['ok'] = z3.BoolVal(False)


def module_constants(tree):
    import ast
    out = {}
    for n in tree.body:
        if isinstance(n, ast.Assign) and len(n.targets) == 1 and isinstance(n.targets[0], ast.Name) \
                and isinstance(n.value, ast.Constant):
            v = n.value.value
            if isinstance(v, bool):
                out[n.targets[0].id] = SBool(v)
            elif isinstance(v, int):
                out[n.targets[0].id] = SInt(v)
            elif isinstance(v, float):
                out[n.targets[0].id] = SReal(z3.RealVal(repr(v)))
    return out


def entry_state(spec, tree, warm):
    st = S.State()
    st.env.update(module_constants(tree))
    st.env['self'] = C.self_obj(spec['fields'])
    for nm in ('X', 'y', 'Y', 'datafit', 'penalty', 'np', 'sparse', 'warnings', 'scipy', 'norm'):
        st.env[nm] = SObj(nm)
    st.env['y'] = SObj('y', attrs={'ndim': 1})
    for nm in ('ConvergenceWarning', 'UserWarning', 'ValueError', 'AttributeError'):
        st.env[nm] = SObj(nm)
    ns, nf = z3.Int('n_samples'), z3.Int('n_features')
    st.pc += [ns >= 1, nf >= 1, z3.Int('n_groups') >= 1]
    for f, srt in spec['fields'].items():
        if f in ('p0',):
            st.pc.append(z3.Int('self_' + f) >= 1)
    st.ghost['fit_intercept'] = z3.Bool('self_fit_intercept')
    st.ghost['items'] = spec.get('items', 'n_features')
    if warm:
        w = SArr(st.newloc('w_init'))
        if spec.get('no_xw'):
            # a solver without its own length check: the documented shape precondition of w_init
            st.pc.append(S.alen(st.heap[w.loc]) == nf)
        xw = SArr(st.newloc('Xw_init', ns))
        C.flags(st)[w.loc] = ('entry', st.ver(w), xw.loc)
        C.flags(st)[xw.loc] = ('entry', st.ver(xw), w.loc)
        st.env['w_init'], st.env['Xw_init'] = w, xw
        st.ghost['entry'] = (w.loc, xw.loc)
    else:
        st.env['w_init'], st.env['Xw_init'] = SNone(), SNone()
        st.ghost['entry'] = None
    return st


def attr_grp_ptr(ip, st, base, node):
    a = st.ghost.get('grp_ptr')
    if a is None:
        a = SArr(st.newloc('grp_ptr', z3.Int('n_groups') + 1), kind='i')
        st.ghost['grp_ptr'] = a
    return a


def attr_grp_indices(ip, st, base, node):
    a = st.ghost.get('grp_indices')
    if a is None:
        a = SArr(st.newloc('grp_indices', z3.Int('n_features')), kind='i')
        st.ghost['grp_indices'] = a
    return a


def run_solver(name, warm):
    spec = SOLVERS[name]
    fn, tree = S.load_function(os.path.join(REPO, spec['file']), spec['qual'])
    calls = dict(C.BASE_CALLS)
    calls['attr:penalty.grp_ptr'] = attr_grp_ptr
    calls['attr:datafit.grp_ptr'] = attr_grp_ptr
    calls['attr:penalty.grp_indices'] = attr_grp_indices
    calls.update(spec.get('calls', {}))
    ip = SolverInterp(calls)
    ip.on_write = C.on_write
    ip.loop_invariants = loop_invariants
    st = entry_state(spec, tree, warm)
    del C.SITE_OBLS[:]
    ip.run(st, fn)
    ip.site_obls = list(C.SITE_OBLS)
    return ip, spec


def _check(T, name, st, goal, terms=(), strength='U', replay=None):
    if replay is None and T.solver_name:
        replay = dict(fn='contracts.repro:solver_cert', args=dict(solver=T.solver_name))
    hyps = list(st.pc) + S.instantiate(st, terms)
    return T.prove(name, hyps, goal, strength=strength, replay=replay, timeout_ms=20000)


def last_event(st, kind, pred=lambda e: True):
    for e in reversed(st.events):
        if e['kind'] == kind and pred(e):
            return e
    return None


def path_tag(st):
    """a stable description of the path (which loops were skipped / broken / exhausted, which branches)"""
    tags, order = [], {}
    for e in st.events:
        if e['kind'] in ('loop-skip', 'loop-exhausted', 'loophead'):
            order.setdefault(e['line'], len(order) + 1)
        if e['kind'] in ('loop-skip', 'loop-exhausted'):
            tags.append(f"{e['kind']}:loop{order[e['line']]}")
    return ','.join(tags) or 'straight'


def solver_task(T, name, warm, props, shard=(0, 1)):
    T.solver_name = name
    T.no_intercept = bool(SOLVERS[name].get('no_xw'))      # Gram solver: no intercept is fitted at all (stated in the evidence)
    ip, spec = run_solver(name, warm)
    cfg = 'warm' if warm else 'cold'
    nitems = z3.Int(spec['items'])
    tol = z3.Real('self_tol')
    fi = z3.Bool('self_fit_intercept')
    if ip.unsupported:
        T.record('supported-subset', 'unsupported', note='; '.join(sorted(set(ip.unsupported))[:8]))
        return
    n_ret = 0
    seen_sites = set()
    # obligations raised at program points (acceptance of an extrapolated point, working-set size, ...)
    for o in ip.site_obls:
        key = (o['name'], o['line'], tuple(x.get_id() for x in o['pc']), o['goal'].get_id())
        if key in seen_sites:
            continue
        seen_sites.add(key)
        if (o['info'].get('prop', 'C01') in props or 'SITES' in props or (o['info'].get('prop') == 'C03' and 'C04' in props)) \
                and len(seen_sites) % shard[1] == shard[0]:
            T.prove(f"{cfg}/site:{o['name']}#{len(seen_sites)}", o['pc'], o['goal'], note=f"line {o['line']}",
                    replay=dict(fn='contracts.repro:solver_cert', args=dict(solver=name)))
    for k, (st, ret) in enumerate(ip.results):
        if k % shard[1] != shard[0]:
            if ret != 'raise':
                n_ret += 1
            continue
        if ret == 'raise':
            continue
        if not isinstance(ret, STuple) or len(ret.items) != 3:
            T.failed(f'{cfg}/returns-(w,objs,stop_crit)@p{k}', f'unexpected return value on path {path_tag(st)}')
            continue
        n_ret += 1
        w, objs, stop = ret.items
        if st.taint:
            T.record(f'{cfg}/path-in-subset@p{k}', 'unsupported', note='; '.join(st.taint[:4]))
            continue
        if 'C01' in props or 'C05' in props:
            c01_return(T, cfg, k, st, w, stop, nitems, tol, fi, props)
        if props == ('C03',) or props == ('SITES',):
            continue
        if 'C17' in props:
            c17_return(T, cfg, k, st, w, objs, stop, fi, nitems)
    if shard[0] != 0:
        return
    if n_ret == 0:
        T.record(f'{cfg}/cover:return-paths', 'vacuous', 'cover', note='no path reaches return')
    else:
        T.record(f'{cfg}/cover:return-paths', 'covered', 'cover', note=f'{n_ret} return paths, {ip.forks} forks')


def c01_return(T, cfg, k, st, w, stop, nitems, tol, fi, props):
    j = z3.Int('j!goal')
    if not isinstance(w, SArr):
        T.failed(f'{cfg}/returns-array@p{k}', 'first returned value is not an array')
        return
    wv = st.ver(w)
    ev = last_event(st, 'score', lambda e: e['ws'] in st.ghost.get('arange', {}))
    if isinstance(stop, SInf):
        if 'C01' in props:
            T.ok(f'{cfg}/cert-fresh[stop_crit=inf]@p{k}', note='stop_crit is +inf on this path: never <= tol')
        return
    Sx = to_real(stop)
    base = [Sx <= tol]
    if ev is None or not ev['grad_ok']:
        # no certificate was computed on this path: the only acceptable stop_crit is one that exceeds every tol
        if 'C01' in props:
            _check(T, f'{cfg}/cert-fresh[no-score-on-path:{path_tag(st)}]@p{k}', st, z3.Not(Sx <= tol))
        return
    xv_now = st.heap[ev['xloc']]
    if 'C01' in props:
        goal = z3.Implies(z3.And(j >= 0, j < nitems), SCOREg(wv, xv_now, j, ev) <= Sx)
        hy = st.clone()
        hy.pc += base
        _check(T, f'{cfg}/cert-fresh@p{k}', hy, goal, terms=[j])
        _check(T, f'{cfg}/cert-covers-all-items@p{k}', hy, z3.And(ev['lo'] == 0, alen(ev['wsv']) == nitems))
        gi = z3.Implies(fi, z3.Or(C.zabs(C.ISTEP(xv_now)) <= Sx, C.zabs(C.SUMRAW(xv_now)) <= Sx))
        if not T.no_intercept:
            _check(T, f'{cfg}/cert-intercept@p{k}', hy, gi)
        _check(T, f'{cfg}/cert-on-returned-array@p{k}', hy, z3.BoolVal(ev['wloc'] == w.loc))
        pr = C.get_pair(st, w.loc, ev['xloc'])
        _check(T, f'{cfg}/inv:Xw==Xw+b@p{k}', hy, z3.And(pr['ok'], pr['rho'] == 0))
    if 'C05' in props and st.ghost.get('entry'):
        wl, xl = st.ghost['entry']
        _check(T, f'{cfg}/buffer:certified-fit-is-callers-Xw_init@p{k}', st, z3.BoolVal(ev['xloc'] == xl))
        _check(T, f'{cfg}/buffer:returns-callers-w_init@p{k}', st, z3.BoolVal(w.loc == wl))
        pr = C.get_pair(st, wl, xl)
        _check(T, f'{cfg}/buffer:inv-on-callers-buffers@p{k}', st, z3.And(pr['ok'], pr['rho'] == 0))


def SCOREg(wv, xv, j, ev):
    return C.SCORE(wv, z3.IntVal(0), xv, j, ev['strat'], ev['aux'])


def c17_stop_value(T, cfg, k, st, w, stop, fi, nitems):
    """C17: `when a run stops on its tolerance the returned stopping value is the optimality violation of the returned point`:
    on every path that leaves the outer loop through `break` (not by exhausting the budget) the returned value dominates the score
    of every item and the intercept term computed from the CURRENT versions of the returned arrays -- whatever its size (no
    `stop_crit <= tol` hypothesis: a stale value above tol is a wrong diagnostic too)"""
    heads = [e for e in st.events if e['kind'] == 'loophead']
    if not heads or not isinstance(w, SArr) or nitems is None or isinstance(stop, SInf):
        return
    h = heads[0]
    if any(e['kind'] == 'loop-exhausted' and e['line'] == h['line'] for e in st.events):
        return
    ev = last_event(st, 'score', lambda e: e['ws'] in st.ghost.get('arange', {}))
    name = f'{cfg}/stop-value-on-a-tolerance-stop'
    if ev is None or not ev['grad_ok']:
        T.failed(f'{name}:no-score-evaluation-on-the-path@p{k}', path_tag(st))
        return
    j = z3.Int('j!goal')
    Sx = to_real(stop)
    xv_now = st.heap[ev['xloc']]
    _check(T, f'{name}>=score-of-every-item-of-the-returned-point@p{k}', st,
           z3.Implies(z3.And(j >= 0, j < nitems), SCOREg(st.ver(w), xv_now, j, ev) <= Sx), terms=[j])
    if not T.no_intercept:
        _check(T, f'{name}>=intercept-optimality-of-the-returned-point@p{k}', st,
               z3.Implies(fi, z3.Or(C.zabs(C.ISTEP(xv_now)) <= Sx, C.zabs(C.SUMRAW(xv_now)) <= Sx)))


def c17_return(T, cfg, k, st, w, objs, stop, fi, nitems=None):
    nf = z3.Int('n_features')
    c17_stop_value(T, cfg, k, st, w, stop, fi, nitems)
    src = st.ghost.get('fromlist', {}).get(objs.loc) if isinstance(objs, SArr) else None
    if src is None:
        T.failed(f'{cfg}/obj-history-is-the-appended-list@p{k}',
                 'the returned objective history is not built from a list with one append per iteration')
        return
    L = st.lists[src]
    # number of completed outer iterations on this path
    heads = [e for e in st.events if e['kind'] == 'loophead']
    if not heads:
        done = z3.IntVal(0)
    else:
        h = heads[0]
        exhausted = any(e['kind'] == 'loop-exhausted' and e['line'] == h['line'] for e in st.events)
        # leaving through `break` at the top of iteration `it` means `it` iterations were completed, unless the
        # append already happened in this iteration (then it + 1)
        done = (h['it'] + 1) if exhausted else None
    if done is None:
        apps = [e for e in st.events if e['kind'] == 'append' and e['lst'] == src]
        after_head = [e for e in apps if st.events.index(e) > st.events.index(heads[0])]
        done = heads[0]['it'] + (1 if after_head else 0)
    _check(T, f'{cfg}/obj-count==iterations@p{k}', st, L['n'] == done)
    if L['last'] is not None and isinstance(w, SArr):
        ev = last_event(st, 'grad') or last_event(st, 'istep')
        app = last_event(st, 'append', lambda e: e['lst'] == src)
        wv = st.ver(w)
        if app is not None:
            # the iterate "at that time" is the current one: no write to w / Xw after the append
            same = all(st.heap[l].eq(v) for l, v in app['snap'].items() if l == w.loc)
            _check(T, f'{cfg}/obj-last:no-write-to-w-after-append@p{k}', st, z3.BoolVal(same))
            xlocs = {e['xloc'] for e in st.events if e['kind'] in ('kernel', 'grad')}
            samex = all(st.heap[l].eq(app['snap'][l]) for l in xlocs if l in app['snap'])
            _check(T, f'{cfg}/obj-last:no-write-to-Xw-after-append@p{k}', st, z3.BoolVal(samex))
            xl = next(iter(xlocs)) if xlocs else None
            if xl is not None and isinstance(app['val'], (SReal, SInt)):
                val = to_real(app['val'])
                if xl in st.ghost.get('gramgrad', set()):
                    # Gram solver: the quadratic datafit is evaluated in Gram form  0.5 w^T G w - (X^T y / n)^T w + ||y||^2 / (2n)
                    # (equal to datafit.value by expanding the square: trusted algebra); the penalty on the whole w (no intercept)
                    gq = st.ghost.get('gram_G')
                    exp = C.gram_objective(st, wv, gq) if gq else None
                    if exp is None:
                        T.failed(f'{cfg}/obj-last==gram-form-objective@p{k}', 'Gram matrix / X^T y of the epoch kernel not identified')
                    else:
                        c0 = st.env.get('scaled_y_norm2')     # ||y||^2 / (2 n): the w-independent term, computed once before the loop
                        if not isinstance(c0, (SReal, SInt)):
                            T.failed(f'{cfg}/obj-last==gram-form-objective+||y||^2/2n@p{k}', 'constant term not a scalar local')
                        else:
                            _check(T, f'{cfg}/obj-last==gram-form-objective+||y||^2/2n@p{k}', st, val == exp + to_real(c0))
                else:
                    _check(T, f'{cfg}/obj-last==datafit.value+penalty.value(w[:n_features])@p{k}', st,
                           val == C.DVAL(wv, st.heap[xl]) + C.PVAL(wv, z3.IntVal(0), nf))

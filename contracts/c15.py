"""C15 -- solutions transform correctly under symmetries of the problem.

What this family can decide are the equivariance LEMMAS of the building blocks, on the REAL functions (front end S, bounded
shapes, all real values); that a solver run reaches the transformed solution is convergence and is not claimed.

  epoch kernel `_cd_epoch` (Quadratic + WeightedL1, 2x2, one coordinate step -- an epoch is the composition of such steps):
      feature permutation (with weights and working set)  -> permuted (w, same Xw)
      sample permutation                                   -> same w, permuted Xw
      stacking the data set twice                          -> same w, stacked Xw
      scaling y and alpha by c > 0 (start scaled by c)     -> c * w, c * Xw
      rescaling a feature by c > 0 with its weight * c     -> coefficient / c, same Xw
  penalties: value / prox / score of WeightedL1 commute with feature permutation; WeightedGroupL2 value with group relabelling
  L2_1.subdiff_distance with 2 tasks: invariant under task permutation and equal to its spec (concrete dimension)
"""
import numpy as np

from pv.core import add_task, describe

describe('C15', level='proof', floor=10,
         explanation='equivariance lemmas of the epoch kernel and of penalties under permutations, stacking and scaling',
         assumptions=['that a solver run reaches the transformed solution is convergence: not decided',
                      'shapes enumerated (2x2 and 4x2), all real values'])


def epoch_symmetry_task(T, which):
    import z3
    from pv import sym, symrun
    from pv.sproof import check_contract, zpre
    from .c06 import Env
    from .catalog import objarr
    symrun.install()
    kern = symrun.get('skglm.solvers.anderson_cd', '_cd_epoch')
    Quadratic = symrun.get('skglm.datafits.single_task', 'Quadratic')
    WL1 = symrun.get('skglm.penalties.separable', 'WeightedL1')
    e = Env(2, 2)
    R = sym.SymReal
    a, c = z3.Real('alpha'), z3.Real('c')
    wt = [z3.Real('wt0'), z3.Real('wt1')]
    L = sym.lift
    pre = zpre([a > 0, wt[0] >= 0, wt[1] >= 0, c > 0])

    def epoch(X, y, w, alpha, weights, ws):
        w = w.copy()
        Xw = np.array([sum((X[i, k] * w[k] for k in range(X.shape[1])), R(z3.RealVal(0))) for i in range(X.shape[0])], dtype=object)
        df = Quadratic()
        df.initialize(X, y)
        lc = df.get_lipschitz(X, y)
        kern(X, y, w, Xw, lc, df, WL1(alpha, objarr(list(weights)), False), np.array(ws))
        return w, Xw

    def run():
        X, y, w = e.symX(), e.sym(e.y), e.sym(e.w)
        W = [R(t) for t in wt]
        base = epoch(X, y, w, R(a), W, [0])
        if which == 'feature-permutation':
            other = epoch(X[:, ::-1], y, w[::-1], R(a), W[::-1], [1])
        elif which == 'sample-permutation':
            other = epoch(X[::-1, :], y[::-1], w, R(a), W, [0])
        elif which == 'stacking':
            other = epoch(np.vstack([X, X]), np.concatenate([y, y]), w, R(a), W, [0])
        elif which == 'scaling-y-alpha':
            other = epoch(X, y * R(c), w * R(c), R(a) * R(c), W, [0])
        else:   # feature rescaling: column 0 times c, its weight times c (alpha*wt*c*|w/c| = alpha*wt*|w|), start coefficient / c
            X2 = X.copy()
            X2[:, 0] = X2[:, 0] * R(c)
            w2 = w.copy()
            w2[0] = w2[0] / R(c)
            other = epoch(X2, y, w2, R(a), [W[0] * R(c), W[1]], [0])
        return base, other

    def post(out, p):
        (w, Xw), (w2, Xw2) = out
        if which == 'feature-permutation':
            g = z3.And(L(w2[0]) == L(w[1]), L(w2[1]) == L(w[0]), L(Xw2[0]) == L(Xw[0]), L(Xw2[1]) == L(Xw[1]))
        elif which == 'sample-permutation':
            g = z3.And(L(w2[0]) == L(w[0]), L(w2[1]) == L(w[1]), L(Xw2[0]) == L(Xw[1]), L(Xw2[1]) == L(Xw[0]))
        elif which == 'stacking':
            g = z3.And(L(w2[0]) == L(w[0]), L(w2[1]) == L(w[1]), *[L(Xw2[i]) == L(Xw[i % 2]) for i in range(4)])
        elif which == 'scaling-y-alpha':
            g = z3.And(*[L(w2[k]) == c * L(w[k]) for k in range(2)], *[L(Xw2[i]) == c * L(Xw[i]) for i in range(2)])
        else:
            g = z3.And(L(w2[0]) * c == L(w[0]), L(w2[1]) == L(w[1]), *[L(Xw2[i]) == L(Xw[i]) for i in range(2)])
        return [('transformed-epoch==transform-of-epoch', [], g)]
    if which == 'feature-rescaling':
        # a null column takes the fixed fallback step (1000), which is not scale-equivariant before the coefficient reaches 0;
        # the lemma is stated for a column with positive curvature
        pre = pre + [e.X[0][0] * e.X[0][0] + e.X[1][0] * e.X[1][0] > 0]
    check_contract(T, which, run, pre, post, strength='B', safety=False)


for _w in ('feature-permutation', 'sample-permutation', 'stacking', 'scaling-y-alpha', 'feature-rescaling'):
    add_task('C15', f'anderson_cd:_cd_epoch/{_w}', epoch_symmetry_task, strength='B', which=_w)


def l21_tasks_task(T, cls):
    """block penalties on a 2-task coefficient matrix (concrete dimension): subdiff_distance == spec, value == spec, and both
    invariant under swapping the two tasks"""
    import z3
    from pv import sym, symrun
    from pv.sproof import check_contract, zpre
    from .c08 import BLOCK_SUB
    from . import spec as S
    symrun.install()
    BLK = 'skglm.penalties.block_separable'
    K = symrun.get(BLK, cls)
    params, mk = BLOCK_SUB[cls]
    zv = {n: z3.Real(n) for n in params}
    sp = mk(zv)
    R = sym.SymReal
    L = sym.lift
    W = [[z3.Real(f'W{j}_{k}') for k in range(2)] for j in range(2)]
    G = [[z3.Real(f'G{k}')] for k in range(2)]
    pre = zpre([sp.params_ok()]) + ([zv['alpha'] > 0] if cls == 'BlockSCAD' else [])
    symM = lambda M: np.array([[R(v) for v in row] for row in M], dtype=object)
    n1, ng = z3.Real('norm_W1'), z3.Real('norm_g')
    aux = [n1 >= 0, n1 * n1 == W[1][0] * W[1][0] + W[1][1] * W[1][1], ng >= 0, ng * ng == G[0][0] * G[0][0] + G[1][0] * G[1][0]]
    pieces = sp.sub(n1)
    saux = S.take_aux()

    def run():
        pen = K(**{k: R(v) for k, v in zv.items()})
        g = np.array([[R(G[0][0]), R(G[1][0])]], dtype=object)
        d = pen.subdiff_distance(symM(W), g, np.array([1]))
        Ws = symM([[W[0][1], W[0][0]], [W[1][1], W[1][0]]])
        gs = np.array([[R(G[1][0]), R(G[0][0])]], dtype=object)
        d2 = pen.subdiff_distance(Ws, gs, np.array([1]))
        return d, d2

    def post(out, p):
        d, d2 = out
        cs = [('task-permutation-invariant', [], L(d[0]) == L(d2[0]))]
        o = L(d[0])
        gW = G[0][0] * W[1][0] + G[1][0] * W[1][1]
        for k, (guard, lo, hi) in enumerate(pieces):
            gz = guard if isinstance(guard, z3.ExprRef) else z3.BoolVal(bool(guard))
            at0 = z3.simplify(z3.substitute(gz, (n1, z3.RealVal(0))))
            at1 = z3.simplify(z3.substitute(gz, (n1, z3.RealVal(1))))
            atm = z3.simplify(z3.substitute(gz, (n1, z3.RealVal(-1))))
            if z3.is_false(at0) and z3.is_false(at1) and not z3.is_false(atm):
                continue
            if z3.is_true(at0) and z3.is_false(at1):
                exp = z3.RealVal(0) if hi is None else S.Max(0, ng - hi)
                cs.append((f'distance[zero-row,piece{k}]', aux + saux + [n1 == 0], o == exp))
            elif lo is not None:
                cs.append((f'distance[piece{k}]', aux + saux + [n1 > 0, gz], z3.And(o >= 0, o * o == ng * ng + 2 * (lo / n1) * gW + lo * lo)))
        return cs
    check_contract(T, 'subdiff_distance[2 tasks]', run, pre, post, strength='B')


for _c in ('L2_1', 'BlockMCPenalty', 'BlockSCAD', 'L2_05'):
    add_task(['C15', 'C08'], f'block_separable:{_c}.subdiff_distance[n_tasks=2]', l21_tasks_task, strength='B', cls=_c)

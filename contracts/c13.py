"""C13 -- every composition is either refused with an explanation or solved.

Static obligations on the REAL source (AST re-read each run), unbounded over data:
  (a) jitclass closure: every attribute a datafit / penalty method assigns or reads on `self` is declared in the class's
      get_spec() (or is a method / inherited): an undeclared attribute makes numba fail inside compiled code
      (typing error) instead of refusing the composition.
  (b) declared requirements cover use: every `datafit.<attr>` / `penalty.<attr>` a solver (its `_solve` and the kernels
      of its module it calls, plus skglm.solvers.common) touches is either listed in `_datafit_required_attr` /
      `_penalty_required_attr` (with the `_sparse` suffix handled by `custom_checks`), guarded by hasattr, checked by
      `check_group_compatible`, or part of the documented base interface (value, params ...).  An undeclared one is a
      composition that passes validation and then fails with a bare AttributeError / numba typing error.
  (c) `BaseSolver.solve` runs `_validate` (custom_checks + check_attrs) before `_solve` unless run_checks=False.
Dynamic part (bounded, thorough tier): the real `solve` over a finite matrix of compositions, uncompiled.
"""
import ast
import os

from pv.core import add_task, describe

describe('C13', level='proof', floor=10,
         explanation='static attribute-coverage and jitclass-closure obligations on the real source',
         assumptions=['numba type inference itself is not modelled: only the declared-spec / declared-requirement closure is',
                      'the dynamic composition matrix is bounded and runs in the thorough tier'])

REPO = os.environ.get('SKGLM_REPO', '/repo')
BASE_IFACE = {'value', 'get_spec', 'params_to_dict', 'initialize', 'initialize_sparse', 'alpha'}


def _parse(rel):
    return ast.parse(open(os.path.join(REPO, rel)).read())


def spec_closure_task(T, rel):
    import importlib
    from pv import symrun
    symrun.install()
    realmod = importlib.import_module(rel[:-3].replace('/', '.'))
    tree = _parse(rel)
    n_cls = 0
    for cls in [n for n in tree.body if isinstance(n, ast.ClassDef)]:
        methods = {m.name for m in cls.body if isinstance(m, ast.FunctionDef)}
        gs = [m for m in cls.body if isinstance(m, ast.FunctionDef) and m.name == 'get_spec']
        if not gs:
            continue
        n_cls += 1
        names = set()
        for n in ast.walk(gs[0]):
            if isinstance(n, ast.Tuple) and len(n.elts) == 2 and isinstance(n.elts[0], ast.Constant) and isinstance(n.elts[0].value, str):
                names.add(n.elts[0].value)
        bases = [ast.unparse(b) for b in cls.bases]
        inherited = set()
        for b in bases:
            for c2 in [n for n in tree.body if isinstance(n, ast.ClassDef) and n.name == b]:
                inherited |= {m.name for m in c2.body if isinstance(m, ast.FunctionDef)}
        # a `pass` / None spec means the class declares no attribute at all
        used = {}
        for m in cls.body:
            if not isinstance(m, ast.FunctionDef) or m.name in ('get_spec', 'params_to_dict'):
                continue
            for n in ast.walk(m):
                if isinstance(n, ast.Attribute) and isinstance(n.value, ast.Name) and n.value.id == 'self':
                    used.setdefault(n.attr, []).append((m.name, n.lineno))
        for attr, where in sorted(used.items()):
            real = getattr(realmod, cls.name, None)
            is_method = real is not None and callable(getattr(real, attr, None))
            ok = attr in names or attr in methods or attr in inherited or is_method
            label = f'{cls.name}.{attr}-declared-in-get_spec'
            if ok:
                T.ok(label, backend='ast')
            else:
                T.failed(label, f'`self.{attr}` is used in {sorted({w[0] for w in where})} but get_spec() declares only {sorted(names)}')
    if n_cls == 0:
        T.failed('classes-with-get_spec', f'no class with get_spec in {rel}')


for _rel in ('skglm/datafits/single_task.py', 'skglm/datafits/group.py', 'skglm/datafits/multi_task.py',
             'skglm/penalties/separable.py', 'skglm/penalties/block_separable.py', 'skglm/penalties/non_separable.py',
             'skglm/experimental/sqrt_lasso.py', 'skglm/experimental/quantile_regression.py'):
    add_task('C13', f'jitclass-closure:{_rel.split("/", 1)[1]}', spec_closure_task, rel=_rel)


SOLVER_FILES = {'AndersonCD': 'skglm/solvers/anderson_cd.py', 'ProxNewton': 'skglm/solvers/prox_newton.py',
                'GroupBCD': 'skglm/solvers/group_bcd.py', 'GroupProxNewton': 'skglm/solvers/group_prox_newton.py',
                'MultiTaskBCD': 'skglm/solvers/multitask_bcd.py', 'GramCD': 'skglm/solvers/gram_cd.py',
                'LBFGS': 'skglm/solvers/lbfgs.py', 'FISTA': 'skglm/solvers/fista.py'}


def _const_tuple(node):
    out = []
    for e in getattr(node, 'elts', []):
        if isinstance(e, ast.Constant):
            out.append((e.value,))
        elif isinstance(e, (ast.Tuple, ast.List)):
            out.append(tuple(x.value for x in e.elts if isinstance(x, ast.Constant)))
    return out


def attr_coverage_task(T, solver):
    rel = SOLVER_FILES[solver]
    tree = _parse(rel)
    common = _parse('skglm/solvers/common.py')
    cls = [n for n in tree.body if isinstance(n, ast.ClassDef) and n.name == solver][0]
    funcs = {n.name: n for n in tree.body if isinstance(n, ast.FunctionDef)}
    funcs.update({n.name: n for n in common.body if isinstance(n, ast.FunctionDef) if n.name not in funcs})
    solve = [m for m in cls.body if isinstance(m, ast.FunctionDef) and m.name == '_solve'][0]
    checks = [m for m in cls.body if isinstance(m, ast.FunctionDef) and m.name == 'custom_checks']
    declared = {'datafit': [], 'penalty': []}
    for st in cls.body:
        if isinstance(st, ast.Assign) and isinstance(st.targets[0], ast.Name):
            if st.targets[0].id == '_datafit_required_attr':
                declared['datafit'] = _const_tuple(st.value)
            if st.targets[0].id == '_penalty_required_attr':
                declared['penalty'] = _const_tuple(st.value)
    csrc = ast.unparse(checks[0]) if checks else ''
    # the sparse-suffix check must be performed on EVERY normal path through custom_checks: a top-level statement of the body
    # `check_attrs(datafit, ..., support_sparse=<issparse(X)>)` with no `return` anywhere before it (a check that only runs for
    # one ws_strategy / one option lets the other configurations through to the compiled kernels)
    sparse_checked = False
    if checks:
        for st in checks[0].body:
            if any(isinstance(n, ast.Return) for n in ast.walk(st)):
                break
            if isinstance(st, ast.Expr) and isinstance(st.value, ast.Call) and ast.unparse(st.value.func) == 'check_attrs' \
                    and any(k.arg == 'support_sparse' and 'issparse(X)' in ast.unparse(k.value) for k in st.value.keywords) \
                    and st.value.args and ast.unparse(st.value.args[0]) == 'datafit':
                sparse_checked = True
                break
    group_checked = {'datafit': 'check_group_compatible(datafit)' in csrc, 'penalty': 'check_group_compatible(penalty)' in csrc}
    refuses_datafit = 'datafit is not None' in csrc
    # reachable functions
    seen, stack, bodies = set(), [solve], []
    while stack:
        f = stack.pop()
        if id(f) in seen:
            continue
        seen.add(id(f))
        bodies.append(f)
        for n in ast.walk(f):
            if isinstance(n, ast.Call) and isinstance(n.func, ast.Name) and n.func.id in funcs:
                stack.append(funcs[n.func.id])
    used = {'datafit': {}, 'penalty': {}}
    guarded = set()
    def compiled(f):
        return any('njit' in ast.unparse(d) for d in f.decorator_list)
    for f in bodies:
        for n in ast.walk(f):
            # only attribute uses inside numba-compiled kernels matter: at the Python level a missing attribute raises an
            # AttributeError that names it, which the property accepts as an explanatory refusal
            if compiled(f) and isinstance(n, ast.Attribute) and isinstance(n.value, ast.Name) and n.value.id in used:
                used[n.value.id].setdefault(n.attr, []).append(f.name)
            if isinstance(n, ast.Call) and isinstance(n.func, ast.Name) and n.func.id == 'hasattr' and len(n.args) == 2 \
                    and isinstance(n.args[0], ast.Name) and isinstance(n.args[1], ast.Constant):
                guarded.add((n.args[0].id, n.args[1].value))
    for role in ('datafit', 'penalty'):
        dflat = {a for alt in declared[role] for a in alt}
        for attr, where in sorted(used[role].items()):
            base = attr[:-7] if attr.endswith('_sparse') else attr
            ok = (attr in BASE_IFACE or attr in dflat or (attr.endswith('_sparse') and base in dflat and sparse_checked)
                  or (role, attr) in guarded or (f"hasattr({role}, '{attr}')" in csrc) or (f'hasattr({role}, "{attr}")' in csrc)
                  or (attr in ('grp_ptr', 'grp_indices') and group_checked[role])
                  or (attr.endswith('_sparse') and (base in BASE_IFACE)) or (role == 'datafit' and refuses_datafit))
            label = f'{role}.{attr}-is-a-declared-requirement'
            if ok:
                T.ok(label, backend='ast')
            else:
                T.failed(label, f'{solver} uses {role}.{attr} in {sorted(set(where))} but declares only {sorted(dflat)} '
                                f'(sparse suffix checked: {sparse_checked}, group check: {group_checked[role]})')


for _s in SOLVER_FILES:
    add_task('C13', f'solvers:{_s}/attribute-coverage', attr_coverage_task, name_=_s) if False else \
        add_task('C13', f'solvers:{_s}/attribute-coverage', attr_coverage_task, solver=_s)


def validate_first_task(T):
    tree = _parse('skglm/solvers/base.py')
    cls = [n for n in tree.body if isinstance(n, ast.ClassDef) and n.name == 'BaseSolver'][0]
    solve = [m for m in cls.body if isinstance(m, ast.FunctionDef) and m.name == 'solve'][0]
    src = [ast.unparse(s) for s in solve.body if not (isinstance(s, ast.Expr) and isinstance(s.value, ast.Constant))]
    ok = len(src) == 2 and src[0].replace(' ', '').startswith('ifrun_checks:') and '_validate(X,y,datafit,penalty)' in src[0].replace(' ', '') \
        and src[1].replace(' ', '') == 'returnself._solve(X,y,datafit,penalty,w_init,Xw_init)'
    (T.ok if ok else T.failed)('solve==validate-then-_solve', note='; '.join(src)[:300])
    val = [m for m in cls.body if isinstance(m, ast.FunctionDef) and m.name == '_validate'][0]
    vs = ast.unparse(val).replace(' ', '')
    ok2 = 'self.custom_checks(X,y,datafit,penalty)' in vs and 'check_attrs(datafit,self,self._datafit_required_attr)' in vs \
        and 'check_attrs(penalty,self,self._penalty_required_attr)' in vs
    (T.ok if ok2 else T.failed)('_validate==custom_checks+check_attrs(datafit)+check_attrs(penalty)', note=vs[:300])


add_task('C13', 'solvers:BaseSolver.solve', validate_first_task)


# ----------------------------------------------------------------------------- dynamic matrix (bounded, exhaustive over the listed classes)

DATAFITS = ['Quadratic', 'WeightedQuadratic', 'Logistic', 'QuadraticSVC', 'Huber', 'Poisson', 'Gamma', 'Cox', 'QuadraticGroup',
            'LogisticGroup']
PENALTIES = ['L1', 'L1_plus_L2', 'WeightedL1', 'MCPenalty', 'WeightedMCPenalty', 'SCAD', 'IndicatorBox', 'L0_5', 'L2_3', 'LogSumPenalty',
             'PositiveConstraint', 'L2', 'SLOPE', 'WeightedGroupL2']
SOLVERS = ['AndersonCD', 'ProxNewton', 'GroupBCD', 'GroupProxNewton', 'GramCD', 'LBFGS', 'FISTA']


def matrix_task(T, solver, shard):
    """the REAL solve() over datafit x penalty x {dense, CSC} x {fit_intercept}, uncompiled (NUMBA_DISABLE_JIT=1, plain floats,
    separate interpreter): each cell must either raise an AttributeError/ValueError with a message, or return finite values"""
    import json
    import subprocess
    import sys
    from pv.core import ROOT
    env = dict(os.environ, NUMBA_DISABLE_JIT='1', PYTHONPATH=ROOT)
    p = subprocess.run([sys.executable, '-m', 'contracts._c13_matrix', solver, str(shard[0]), str(shard[1])], capture_output=True,
                       text=True, env=env, cwd=ROOT, timeout=1500)
    if p.returncode != 0:
        T.record('matrix-runner', 'error', note=p.stderr[-800:])
        return
    res = json.loads(p.stdout.strip().split('\n')[-1])
    for cell, why in res['bad']:
        T.failed(f'{cell}', why, strength='B', replay=dict(fn='contracts.c13:replay_cell', args=dict(solver=solver, cell=cell)))
    T.record('cells', 'proved', 'B', note=f"{res['cells']} compositions ran", backend='exec')


def replay_cell(args, model):
    return dict(confirmed=False, detail='matrix cells are run uncompiled; compile-time behaviour is not replayed here', inputs=args)


for _s in SOLVERS:
    for _sh in range(3):
        add_task('C13', f'matrix:{_s}', matrix_task, strength='B', solver=_s, shard=(_sh, 3))


def sparse_dispatch_task(T):
    """storage dispatch is decided by ONE predicate: every test `is X sparse?` in skglm's solvers, estimators and validation layer is
    `scipy.sparse.issparse` (true for csc_matrix and for the newer csc_array alike).  A second predicate (isspmatrix, isinstance(X,
    spmatrix), ...) makes the validation layer and the kernel dispatch disagree for one of the containers: the composition is accepted
    by custom_checks and then handed to the wrong (dense) compiled kernel.  AST obligation per module."""
    import ast as _ast
    from pv.frame import Package, dotted
    P = Package(REPO)
    bad_names = {'isspmatrix', 'isspmatrix_csc', 'isspmatrix_csr', 'isspmatrix_coo', 'isspmatrix_bsr', 'isspmatrix_lil', 'isspmatrix_dok',
                 'isspmatrix_dia', 'spmatrix', 'csc_matrix', 'csr_matrix'}
    n_mod = n_tests = 0
    for m, tree in sorted(P.modules.items()):
        if not (m.startswith('skglm.solvers') or m.startswith('skglm.estimators') or m.startswith('skglm.utils.validation')
                or m.startswith('skglm.experimental')):
            continue
        n_mod += 1
        bad = []
        for n in _ast.walk(tree):
            if isinstance(n, _ast.Call):
                dn = (dotted(n.func) or '').split('.')[-1]
                if dn == 'issparse':
                    n_tests += 1
                elif dn in bad_names and dn.startswith('isspmatrix'):
                    bad.append(f'{dn}(...) at line {n.lineno}')
                elif dn == 'isinstance' and len(n.args) == 2 and any(isinstance(x, (_ast.Name, _ast.Attribute)) and
                                                                     (dotted(x) or '').split('.')[-1] in bad_names
                                                                     for x in _ast.walk(n.args[1])):
                    bad.append(f'isinstance(..., {_ast.unparse(n.args[1])}) at line {n.lineno}')
        (T.failed if bad else T.ok)(f'sparse-dispatch/{m}/one-predicate(issparse)', note='; '.join(bad) if bad else '')
    (T.ok if n_mod >= 8 and n_tests >= 10 else T.failed)('sparse-dispatch/modules-scanned', note=f'{n_mod} modules, {n_tests} issparse tests')


add_task(['C13', 'C10'], 'static:sparse-dispatch-predicate', sparse_dispatch_task)

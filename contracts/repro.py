"""Native replay harnesses for solver-level (structural) obligations.

A structural counter-model fixes the integer/boolean skeleton (budgets, flags, sizes).  The replay builds
small concrete problems with that skeleton (seeded), runs the REAL compiled solver in /venv semantics and
recomputes, from X, y and the returned values alone, the quantities the obligation talks about.
"""
import os
import warnings

import numpy as np


def _i(model, name, default):
    v = model.get(name)
    try:
        return int(v)
    except (TypeError, ValueError):
        return default


def _b(model, name, default):
    v = model.get(name)
    if v is None:
        return default
    return str(v) == 'True'


def make_problem(solver, seed, n=12, p=6, sparse_X=False):
    from scipy import sparse
    rng = np.random.RandomState(seed)
    X = rng.randn(n, p)
    X[rng.rand(n, p) < 0.3] = 0.
    w_true = np.zeros(p)
    w_true[:2] = [1.5, -2.]
    y = X @ w_true + 0.3 * rng.randn(n) + 1.0
    Xs = sparse.csc_matrix(X) if sparse_X else np.asfortranarray(X)
    return X, Xs, y


def components(solver, X, y, rng):
    """a (datafit, penalty, truth-oracle) triple accepted by the solver"""
    from skglm.utils.jit_compilation import compiled_clone
    from skglm import datafits, penalties
    n, p = X.shape
    if solver in ('AndersonCD', 'GramCD'):
        df, pen = datafits.Quadratic(), penalties.L1(0.1 * np.max(np.abs(X.T @ (y - y.mean()))) / n)
        kind = 'quad-l1'
    elif solver == 'ProxNewton':
        yb = np.sign(y - np.median(y))
        yb[yb == 0] = 1
        y = yb
        df, pen = datafits.Logistic(), penalties.L1(0.05)
        kind = 'log-l1'
    elif solver in ('GroupBCD', 'GroupProxNewton'):
        from skglm.utils.data import grp_converter
        grp_indices, grp_ptr = grp_converter(2, p)
        if solver == 'GroupBCD':
            df = datafits.QuadraticGroup(grp_ptr, grp_indices)
            kind = 'quad-grp'
        else:
            yb = np.sign(y - np.median(y))
            yb[yb == 0] = 1
            y = yb
            df = datafits.LogisticGroup(grp_ptr, grp_indices)
            kind = 'log-grp'
        pen = penalties.WeightedGroupL2(0.05, np.ones(len(grp_ptr) - 1), grp_ptr, grp_indices)
    else:
        raise KeyError(solver)
    return compiled_clone(df), compiled_clone(pen), y, kind


def true_violation(kind, X, y, w, fit_intercept, pen):
    """max_j dist(-grad_j, subdifferential) and |d/db|, recomputed from X, y, w alone"""
    n, p = X.shape
    b = w[p] if fit_intercept else 0.
    z = X @ w[:p] + b
    if kind.startswith('quad'):
        raw = (z - y) / n
    else:
        raw = -y / (1 + np.exp(y * z)) / n
    g = X.T @ raw
    alpha = pen.alpha
    if kind.endswith('l1'):
        sc = np.where(w[:p] == 0, np.maximum(0, np.abs(g) - alpha), np.abs(g + alpha * np.sign(w[:p])))
    else:
        sc = []
        gp, gi = pen.grp_ptr, pen.grp_indices
        for k in range(len(gp) - 1):
            idx = gi[gp[k]:gp[k + 1]]
            wg, gg = w[idx], g[idx]
            a = alpha * pen.weights[k]
            nw = np.linalg.norm(wg)
            sc.append(max(0, np.linalg.norm(gg) - a) if nw == 0 else np.linalg.norm(gg + a * wg / nw))
        sc = np.array(sc)
    return max(sc.max(), abs(raw.sum()) if fit_intercept else 0.), z


def anderson_ws_size(args=None, model=None):
    """AndersonCD on an ill-conditioned design, WeightedL1 with two unpenalised features whose coefficients start at zero and a
    warm start supported on the penalised features: the working set must hold support U unpenalised (4 features)"""
    from skglm.solvers import AndersonCD
    from skglm.datafits import Quadratic
    from skglm.penalties import WeightedL1
    from skglm.utils.jit_compilation import compiled_clone
    df = compiled_clone(Quadratic())
    wts = np.array([1., 1., 0., 0.])
    for seed in range(4):
        rng = np.random.RandomState(seed)
        n, p = 30, 4
        b = rng.randn(n)
        E = rng.randn(n, p)
        E -= np.outer(b, b @ E) / (b @ b)
        X = np.asfortranarray(b[:, None] + 0.3 * E)
        y = X @ np.array([1., -2., 3., -2.])
        pen = compiled_clone(WeightedL1(1e-4, wts))
        w0 = np.array([0.8, -0.8, 0., 0.])
        xw0 = X @ w0
        with warnings.catch_warnings():
            warnings.simplefilter('ignore')
            w, _, stop = AndersonCD(max_iter=100, max_epochs=1000, p0=1, tol=1e-8, fit_intercept=False).solve(X, y, df, pen, w0, xw0)
        g = X.T @ (X @ w - y) / n
        viol = float(np.max(pen.subdiff_distance(w, g, np.arange(p))))
        buf = float(np.max(np.abs(xw0 - X @ w)))
        rec = dict(solver='AndersonCD', scenario='ill-conditioned X = b 1^T + 0.3 E (E orthogonal to b), WeightedL1(1e-4, [1,1,0,0]), '
                   'w_init=[0.8,-0.8,0,0], p0=1, fit_intercept=False, tol=1e-8', seed=seed, stop_crit=float(stop),
                   recomputed_violation=viol, buffer_error=buf)
        if (stop <= 1e-8 and viol > 1e-6) or buf > 1e-6:
            return dict(confirmed=True, detail='working set smaller than support U unpenalised: certified point is not optimal / '
                        'caller buffer inconsistent', inputs=rec)
    return dict(confirmed=False, detail='working-set scenario passes', inputs={})


def solver_cert(args, model):
    """stop_crit <= tol must imply: recomputed violation <= stop_crit (+ float slack); Xw buffer == X w + b"""
    import skglm.solvers as S
    name = args['solver']
    if name == 'AndersonCD':
        r = anderson_ws_size()
        if r['confirmed']:
            return r
    fi = _b(model, 'self_fit_intercept', True) and name != 'GramCD'      # GramCD.solve takes no intercept
    sp = _b(model, 'X_is_sparse', False)
    mi = min(max(_i(model, 'self_max_iter', 1), 0), 6)
    strat = {1: 'subdiff', 2: 'fixpoint'}.get(_i(model, 'self_ws_strategy', 1), 'subdiff')
    budgets = sorted({mi, 0, 1, 2})
    tried = []
    for seed in range(6):
        for budget in budgets:
            for warm in (False, True):
                X, Xs, y = make_problem(name, seed, sparse_X=sp)
                rng = np.random.RandomState(seed)
                try:
                    df, pen, yy, kind = components(name, X, y, rng)
                    kw = dict(max_iter=budget, tol=1e-6, fit_intercept=fi)
                    if name == 'GramCD':
                        kw.update(use_acc=_b(model, 'self_use_acc', False), greedy_cd=_b(model, 'self_greedy_cd', False))
                    if name in ('AndersonCD', 'ProxNewton', 'GroupBCD'):
                        kw['ws_strategy'] = strat
                    if name in ('AndersonCD', 'GroupBCD'):
                        kw['max_epochs'] = max(1, min(_i(model, 'self_max_epochs', 7), 50))
                    if name != 'GramCD':
                        kw['p0'] = max(1, min(_i(model, 'self_p0', 2), 10))
                    solver = getattr(S, name)(**kw)
                    p = X.shape[1]
                    w0 = xw0 = None
                    if warm:
                        w0 = np.zeros(p + fi)
                        w0[:3] = rng.randn(3)
                        if fi:
                            w0[-1] = 0.7
                        xw0 = X @ w0[:p] + (w0[-1] if fi else 0.)
                    Xin = Xs
                    if name == 'GroupProxNewton' and sp:
                        Xin = X
                    with warnings.catch_warnings():
                        warnings.simplefilter('ignore')
                        w, objs, stop = solver.solve(Xin, yy, None if name == 'GramCD' else df, pen, w0, xw0)
                except Exception as ex:     # noqa
                    tried.append(f'seed={seed} budget={budget} warm={warm}: raised {type(ex).__name__}: {str(ex)[:80]}')
                    continue
                viol, z = true_violation(kind, X, yy, w, fi, pen)
                rec = dict(solver=name, seed=seed, max_iter=budget, warm=warm, fit_intercept=fi, sparse=sp,
                           ws_strategy=strat, stop_crit=float(stop), recomputed_violation=float(viol), tol=1e-6)
                if stop <= 1e-6 and viol > max(stop, 1e-6) * (1 + 1e-6) + 1e-9:
                    return dict(confirmed=True, detail='reported stop_crit <= tol but the recomputed violation is larger', inputs=rec)
                if warm and xw0 is not None and np.max(np.abs(xw0 - z)) > 1e-8 * (1 + np.max(np.abs(z))):
                    return dict(confirmed=True, detail=f'caller\'s Xw buffer differs from X w + b by {np.max(np.abs(xw0 - z)):.3g}',
                                inputs=rec)
    return dict(confirmed=False, detail='no failing run among the scenarios tried', inputs=dict(tried=tried[:5]))

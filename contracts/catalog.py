"""Catalog of the penalty classes under contract: how to instantiate the REAL class on symbolic
or concrete hyper-parameters, and which spec (contracts/spec.py) it is checked against."""
import numpy as np

from . import spec as S

SEP = 'skglm.penalties.separable'
BLK = 'skglm.penalties.block_separable'

NW = 2          # number of weights in weighted penalties (index j = 1 is exercised: a wrong index shows)
J = 1


class ObjArr(np.ndarray):
    """object ndarray whose astype(float) is the identity (the constructors call
    `weights.astype(np.float64)`, a no-op on the float64 arrays numba receives)"""

    def astype(self, dtype, *a, **k):
        return np.asarray(self).copy()


def objarr(items):
    a = np.empty(len(items), dtype=object)
    for i, x in enumerate(items):
        a[i] = x
    return a.view(ObjArr)


class PenCase:
    """one (penalty class, flag configuration)"""

    def __init__(self, cls, module, params, flags=None, weighted=False, mk_spec=None, has_prox=True,
                 has_alpha_max=False, numeric=False):
        self.cls, self.module, self.params = cls, module, params
        self.flags = flags or {}
        self.weighted, self.mk_spec = weighted, mk_spec
        self.has_prox, self.has_alpha_max, self.numeric = has_prox, has_alpha_max, numeric

    @property
    def tag(self):
        f = ','.join(f'{k}={v}' for k, v in sorted(self.flags.items()))
        return f'{self.cls}[{f}]' if f else self.cls

    def names(self):
        """names of the real-valued hyper-parameters (weights expanded)"""
        n = list(self.params)
        if self.weighted:
            n += [f'wt{i}' for i in range(NW)]
        return n

    def instantiate(self, vals, wrap=None):
        """vals: dict name -> value (Sym or float).  returns the REAL class instance (uncompiled in a
        symbolic process, compiled in a native one -- see `native_instance`)."""
        import importlib
        cls = getattr(importlib.import_module(self.module), self.cls)
        kw = {p: vals[p] for p in self.params}
        if self.weighted:
            ws = [vals[f'wt{i}'] for i in range(NW)]
            kw['weights'] = objarr(ws) if wrap == 'sym' else np.array(ws, dtype=float)
        kw.update(self.flags)
        return cls(**kw)

    def native_instance(self, vals):
        from skglm.utils.jit_compilation import compiled_clone
        return compiled_clone(self.instantiate(vals))

    def spec(self, vals, j=J):
        return self.mk_spec(vals, self.flags, j)


def _w(vals, j):
    return vals[f'wt{j}']


PENALTIES = []
for pos in (False, True):
    PENALTIES += [
        PenCase('L1', SEP, ['alpha'], dict(positive=pos), has_alpha_max=True,
                mk_spec=lambda v, f, j: S.L1Spec(v['alpha'], f['positive'])),
        PenCase('L1_plus_L2', SEP, ['alpha', 'l1_ratio'], dict(positive=pos), has_alpha_max=True,
                mk_spec=lambda v, f, j: S.ENetSpec(v['alpha'], v['l1_ratio'], f['positive'])),
        PenCase('WeightedL1', SEP, ['alpha'], dict(positive=pos), weighted=True, has_alpha_max=True,
                mk_spec=lambda v, f, j: S.L1Spec(v['alpha'], f['positive'], _w(v, j))),
        PenCase('MCPenalty', SEP, ['alpha', 'gamma'], dict(positive=pos), has_alpha_max=True,
                mk_spec=lambda v, f, j: S.MCPSpec(v['alpha'], v['gamma'], f['positive'])),
        PenCase('WeightedMCPenalty', SEP, ['alpha', 'gamma'], dict(positive=pos), weighted=True, has_alpha_max=True,
                mk_spec=lambda v, f, j: S.MCPSpec(v['alpha'], v['gamma'], f['positive'], _w(v, j))),
    ]
PENALTIES += [
    PenCase('SCAD', SEP, ['alpha', 'gamma'], mk_spec=lambda v, f, j: S.SCADSpec(v['alpha'], v['gamma'])),
    PenCase('IndicatorBox', SEP, ['alpha'], mk_spec=lambda v, f, j: S.BoxSpec(v['alpha'])),
    PenCase('PositiveConstraint', SEP, [], mk_spec=lambda v, f, j: S.PosSpec()),
]
NUMERIC_PENALTIES = [
    PenCase('L0_5', SEP, ['alpha'], numeric=True, mk_spec=lambda v, f, j: S.PowSpec(v['alpha'], 0.5)),
    PenCase('L2_3', SEP, ['alpha'], numeric=True, mk_spec=lambda v, f, j: S.PowSpec(v['alpha'], 2. / 3.)),
    PenCase('LogSumPenalty', SEP, ['alpha', 'eps'], numeric=True,
            mk_spec=lambda v, f, j: S.LogSumSpec(v['alpha'], v['eps'])),
]


def by_tag(tag):
    for p in PENALTIES + NUMERIC_PENALTIES:
        if p.tag == tag:
            return p
    raise KeyError(tag)

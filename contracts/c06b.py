"""C06 / C09 (continued): group, multitask and Cox datafits -- bounded symbolic proofs on the REAL methods.

QuadraticGroup / LogisticGroup: n=2 samples, 3 features, groups {2,0},{1} stored as grp_indices=[2,0,1] (positions differ from feature indices); dense and every CSC pattern of a 2x3 design restricted to 16 representative patterns.
QuadraticMultiTask: 2 samples, 2 features, 2 tasks; dense and every CSC pattern.
Cox: 3 samples, EVERY tie pattern x censoring pattern x {Breslow, Efron}; the linear predictor is symbolic (all reals);
    value == negative log partial likelihood (risk-set definition), raw_grad == its gradient, gradient(_sparse) == X^T raw_grad,
    raw_hessian dominates the diagonal of the true Hessian where documented as a bound.
"""
import itertools

import numpy as np

from pv.core import add_task
# layout where the positions of a group inside grp_indices differ, as a set, from its feature indices (an implementation that
# drops the grp_indices indirection is then visible), and no group index equals the index of its only feature's position
GP = np.array([0, 2, 3], dtype=np.int32)
GI = np.array([2, 0, 1], dtype=np.int32)
GROUPS = [[2, 0], [1]]

GRP = 'skglm.datafits.group'


def _sumz(xs):
    import z3
    xs = list(xs)
    return z3.Sum(xs) if xs else z3.RealVal(0)


def group_datafit_task(T, which):
    import z3
    from pv import sym, symrun
    from pv.diff import d
    from pv.sproof import check_contract, zpre
    from .c06 import Env, V_quadratic, V_logistic
    symrun.install()
    K = symrun.get(GRP, which)
    n, p = 2, 3
    e = Env(n, p)
    R = sym.SymReal
    V = V_quadratic(e) if which == 'QuadraticGroup' else V_logistic(e)
    dV = [d(V, zi) for zi in e.z]
    y, z, w = (lambda: e.sym(e.y)), (lambda: e.sym(e.z)), (lambda: e.sym(e.w))
    mk = lambda: K(GP, GI)
    rp = dict(fn='contracts.c06b:replay_group', args=dict(which=which))

    def gexp(j, pat=None):
        return _sumz(e.Xz(pat, i, j) * dV[i] for i in range(n))
    L = sym.lift
    check_contract(T, 'value', lambda: mk().value(y(), w(), z()), [], lambda out, pth: [('==documented-loss', [], L(out) == V)],
                   strength='B', replay=dict(rp, args=dict(rp['args'], method='value')))
    for g in range(2):
        check_contract(T, f'gradient_g[g={g}]', lambda g=g: mk().gradient_g(e.symX(), y(), w(), z(), g), [],
                       lambda out, pth, g=g: [(f'[{k}]==d/dw_{j}', [], L(out[k]) == gexp(j)) for k, j in enumerate(GROUPS[g])]
                       + [('length', [], z3.BoolVal(len(out) == len(GROUPS[g])))],
                       strength='B', replay=dict(rp, args=dict(rp['args'], method='gradient_g', g=g)))
    if hasattr(K, 'gradient_scalar'):
        for j in range(p):
            check_contract(T, f'gradient_scalar[j={j}]', lambda j=j: mk().gradient_scalar(e.symX(), y(), w(), z(), j), [],
                           lambda out, pth, j=j: [('==sum_i X_ij dV/dz_i', [], L(out) == gexp(j))], strength='B',
                           replay=dict(rp, args=dict(rp['args'], method='gradient_scalar', j=j)))
    if which == 'QuadraticGroup':
        check_contract(T, 'intercept_update_step', lambda: mk().intercept_update_step(y(), z()), [],
                       lambda out, pth: [('==sum_i dV/dz_i', [], L(out) == _sumz(dV))], strength='B')
        pats = [[[1, 1, 1], [1, 1, 1]], [[1, 0, 1], [0, 1, 1]], [[0, 1, 0], [1, 1, 1]], [[1, 1, 0], [1, 0, 0]], [[0, 0, 1], [0, 1, 0]],
                [[0, 0, 0], [1, 1, 1]], [[1, 0, 0], [0, 0, 1]], [[0, 1, 1], [0, 0, 0]]]
        for pat in pats:
            tag = ''.join(str(b) for r in pat for b in r)
            for g in range(2):
                def run(pat=pat, g=g):
                    data, indptr, indices = e.csc(pat)
                    return mk().gradient_g_sparse(data, indptr, indices, y(), w(), z(), g)
                check_contract(T, f'gradient_g_sparse[g={g},csc={tag}]', run, [],
                               lambda out, pth, g=g, pat=pat: [(f'[{k}]==dense-contract', [], L(out[k]) == gexp(j, pat))
                                                                for k, j in enumerate(GROUPS[g])]
                               + [('length', [], z3.BoolVal(len(out) == len(GROUPS[g])))],
                               strength='B', replay=dict(rp, args=dict(rp['args'], method='gradient_g_sparse', g=g, pattern=pat)))
            for j in range(p):
                def run2(pat=pat, j=j):
                    data, indptr, indices = e.csc(pat)
                    return mk().gradient_scalar_sparse(data, indptr, indices, y(), w(), z(), j)
                check_contract(T, f'gradient_scalar_sparse[j={j},csc={tag}]', run2, [],
                               lambda out, pth, j=j, pat=pat: [('==dense-contract', [], L(out) == gexp(j, pat))], strength='B')


for _w in ('QuadraticGroup', 'LogisticGroup'):
    add_task(['C06', 'C10', 'C15'], f'group:{_w}[2x3,groups=(2,0),(1)]', group_datafit_task, strength='B', which=_w)


def multitask_task(T, sparse):
    import z3
    from pv import sym, symrun
    from pv.sproof import check_contract
    from .c06 import Env, patterns
    symrun.install()
    K = symrun.get('skglm.datafits.multi_task', 'QuadraticMultiTask')
    n, p, t = 2, 2, 2
    e = Env(n, p)
    R = sym.SymReal
    Y = [[z3.Real(f'Y{i}_{k}') for k in range(t)] for i in range(n)]
    Z = [[z3.Real(f'Z{i}_{k}') for k in range(t)] for i in range(n)]       # XW, an independent point
    symM = lambda M: np.array([[R(v) for v in row] for row in M], dtype=object)
    Vv = _sumz((Y[i][k] - Z[i][k]) * (Y[i][k] - Z[i][k]) for i in range(n) for k in range(t)) / (2 * n)
    L = sym.lift
    W = lambda: np.zeros((p, t), dtype=object)
    dVz = [[(Z[i][k] - Y[i][k]) / n for k in range(t)] for i in range(n)]   # d/dZ_ik of the documented loss

    def gexp(j, k, pat=None):
        return _sumz(e.Xz(pat, i, j) * dVz[i][k] for i in range(n))
    if not sparse:
        check_contract(T, 'value', lambda: K().value(symM(Y), W(), symM(Z)), [],
                       lambda out, pth: [('==||Y-XW||_F^2/(2n)', [], L(out) == Vv)], strength='B')

        def run():
            D = K()
            D.initialize(e.symX(), symM(Y))
            return [D.gradient_j(e.symX(), symM(Y), W(), symM(Z), j) for j in range(p)]
        check_contract(T, 'gradient_j', run, [],
                       lambda out, pth: [(f'[{j},{k}]', [], L(out[j][k]) == gexp(j, k)) for j in range(p) for k in range(t)], strength='B')
        check_contract(T, 'intercept_update_step', lambda: K().intercept_update_step(symM(Y), symM(Z)), [],
                       lambda out, pth: [(f'[{k}]==sum_i dV/dZ_ik', [], L(out[k]) == _sumz(dVz[i][k] for i in range(n))) for k in range(t)],
                       strength='B')
        check_contract(T, 'get_lipschitz', lambda: K().get_lipschitz(e.symX(), symM(Y)), [],
                       lambda out, pth: [(f'[{j}]>=sum_i X_ij^2/n', [], L(out[j]) >= _sumz(e.X[i][j] * e.X[i][j] for i in range(n)) / n)
                                         for j in range(p)], strength='B')
        return
    for pat in patterns(n, p):
        tag = ''.join(str(b) for r in pat for b in r)

        def run(pat=pat):
            D = K()
            data, indptr, indices = e.csc(pat)
            D.initialize_sparse(data, indptr, indices, symM(Y))
            gj = [D.gradient_j_sparse(data, indptr, indices, symM(Y), symM(Z), j) for j in range(p)]
            fg = D.full_grad_sparse(data, indptr, indices, symM(Y), symM(Z))
            lp = D.get_lipschitz_sparse(data, indptr, indices, symM(Y))
            return gj, fg, lp

        def post(out, pth, pat=pat):
            gj, fg, lp = out
            cs = []
            for j in range(p):
                for k in range(t):
                    cs.append((f'gradient_j_sparse[{j},{k}]', [], L(gj[j][k]) == gexp(j, k, pat)))
                    cs.append((f'full_grad_sparse[{j},{k}]', [], L(fg[j][k]) == gexp(j, k, pat)))
                cs.append((f'get_lipschitz_sparse[{j}]', [], L(lp[j]) >= _sumz(e.Xz(pat, i, j) * e.Xz(pat, i, j) for i in range(n)) / n))
            return cs
        check_contract(T, f'sparse[csc={tag}]', run, [], post, strength='B')


add_task(['C06', 'C09'], 'multi_task:QuadraticMultiTask[dense,2x2x2]', multitask_task, strength='B', sparse=False)
add_task(['C06', 'C09', 'C10'], 'multi_task:QuadraticMultiTask[sparse,2x2x2]', multitask_task, strength='B', sparse=True)


# ----------------------------------------------------------------------------- Cox

def cox_spec(tm, s, z, efron):
    """negative log partial likelihood / n  (risk-set definition; Breslow or Efron tie handling), z3 term"""
    import z3
    from pv.sym import EXP, LOG
    n = len(tm)
    e = [EXP(zi) for zi in z]
    tot = z3.RealVal(0)
    for tval in sorted(set(tm)):
        H = [i for i in range(n) if tm[i] == tval and s[i] == 1]      # events at this time
        if not H:
            continue
        Rk = [j for j in range(n) if tm[j] >= tval]                   # risk set
        SR = z3.Sum([e[j] for j in Rk])
        SH = z3.Sum([e[j] for j in H])
        d = len(H)
        for l in range(d):
            tot = tot + (LOG(SR - z3.RealVal(l) / d * SH) if efron else LOG(SR))
        tot = tot - z3.Sum([z[i] for i in H])
    return tot / n


def cox_task(T, n, efron, shard=(0, 1)):
    import z3
    from pv import sym, symrun
    from pv.diff import d
    from pv.sproof import check_contract
    symrun.install()
    Cox = symrun.get('skglm.datafits.single_task', 'Cox')
    R = sym.SymReal
    z = [z3.Real(f'z{i}') for i in range(n)]
    L = sym.lift
    X = [[z3.Real(f'X{i}_{j}') for j in range(2)] for i in range(n)]
    seen = set()
    for tm in itertools.product(range(1, n + 1), repeat=n):
        # canonical tie patterns only (times relabelled to 1..k in order of appearance is NOT order preserving;
        # keep all orderings, drop value-duplicates such as (1,1,3) vs (1,1,2))
        ranks = tuple(sorted(set(tm)).index(t) for t in tm)
        if ranks in seen:
            continue
        seen.add(ranks)
        if (len(seen) - 1) % shard[1] != shard[0]:
            continue
        for s in itertools.product((0, 1), repeat=n):
            tag = 't=' + ''.join(map(str, ranks)) + ',s=' + ''.join(map(str, s))
            V = cox_spec(list(ranks), list(s), z, efron)
            dV = [d(V, zi) for zi in z]
            yarr = np.array([[float(r), float(si)] for r, si in zip(ranks, s)])

            def run(yarr=yarr):
                D = Cox(use_efron=efron)
                Xs = np.array([[R(v) for v in row] for row in X], dtype=object)
                D.initialize(Xs, yarr)
                zz = np.array([R(t) for t in z], dtype=object)
                val = D.value(yarr, None, zz) if sum(yarr[:, 1]) > 0 else D.value(yarr, None, zz)
                return val, D.raw_grad(yarr, zz), D.gradient(Xs, yarr, zz), D.raw_hessian(yarr, zz)

            def post(out, pth, V=V, dV=dV):
                val, rg, gr, rh = out
                cs = [('value==neg-log-partial-likelihood/n', [], L(val) == V)]
                for i in range(n):
                    cs.append((f'raw_grad[{i}]==dV/dz_{i}', [], L(rg[i]) == dV[i]))
                    if n <= 2:
                        cs.append((f'raw_hessian[{i}]>=d2V/dz_{i}^2', [], L(rh[i]) >= d(dV[i], z[i])))
                        # link to get_global_lipschitz (contracts/c09g.py): every diagonal bound is below sum(s)/n
                        cs.append((f'raw_hessian[{i}]<=sum(s)/n', [], L(rh[i]) <= z3.RealVal(int(sum(yarr[:, 1]))) / n))
                if n == 2 and T.tier == 'extended':
                    # diag(raw_hessian) - Hessian is positive semi-definite (2x2: diagonal >= 0 above, determinant >= 0).
                    # NOT claimed, in no MANIFEST tier (`--tier extended` only): solver-unstable (same query 5 s in one run, unknown
                    # after 120 s in another); the diagonal clauses above are the ones that carry C09
                    a, c = L(rh[0]) - d(dV[0], z[0]), L(rh[1]) - d(dV[1], z[1])
                    b = d(dV[0], z[1])
                    cs.append(('diag(raw_hessian)-Hessian:det>=0', [], a * c - b * b >= 0))
                for j in range(2):
                    # modular: gradient is X^T raw_grad (raw_grad == dV/dz is the obligation above)
                    cs.append((f'gradient[{j}]==sum_i X_ij raw_grad_i', [], L(gr[j]) == z3.Sum([X[i][j] * L(rg[i]) for i in range(n)])))
                return cs
            check_contract(T, f'cox[{tag}]', run, [], post, strength='B',
                           replay=dict(fn='contracts.c06b:replay_cox', args=dict(tm=list(ranks), s=list(s), efron=efron)))


for _ef in (False, True):
    add_task(['C06', 'C09', 'C20'], f'single_task:Cox[use_efron={_ef},n=2]', cox_task, strength='B', n=2, efron=_ef)
    for _sh in range(4):
        add_task('C06', f'single_task:Cox[use_efron={_ef},n=3]', cox_task, strength='B', n=3, efron=_ef, shard=(_sh, 4))


def cox_sparse_task(T, efron):
    """gradient_sparse == gradient on every CSC pattern (3 samples with a tie and a censored observation)"""
    import z3
    from pv import sym, symrun
    from pv.sproof import check_contract
    from .c06 import Env, patterns
    symrun.install()
    Cox = symrun.get('skglm.datafits.single_task', 'Cox')
    R = sym.SymReal
    e = Env(3, 2)
    yarr = np.array([[2., 1.], [1., 1.], [2., 0.]])
    L = sym.lift
    for pat in patterns(3, 2):
        tag = ''.join(str(b) for r in pat for b in r)

        def run(pat=pat):
            D = Cox(use_efron=efron)
            data, indptr, indices = e.csc(pat)
            D.initialize_sparse(data, indptr, indices, yarr)
            zz = e.sym(e.z)
            D2 = Cox(use_efron=efron)
            D2.initialize(e.symX(pat), yarr)
            return D.gradient_sparse(data, indptr, indices, yarr, zz), D2.gradient(e.symX(pat), yarr, zz)
        check_contract(T, f'gradient_sparse[csc={tag}]', run, [],
                       lambda out, pth: [(f'[{j}]==dense', [], L(out[0][j]) == L(out[1][j])) for j in range(2)], strength='B')


for _ef in (False, True):
    add_task(['C06', 'C10'], f'single_task:Cox[use_efron={_ef}].gradient_sparse', cox_sparse_task, strength='B', efron=_ef)


# ----------------------------------------------------------------------------- native replay

def _f(model, nm, dflt=0.5):
    from .c07 import _fl
    return _fl(model, nm, dflt)


def replay_cox(args, model):
    from skglm.datafits import Cox
    from skglm.utils.jit_compilation import compiled_clone
    tm, s, efron = np.array(args['tm'], dtype=float), np.array(args['s'], dtype=float), args['efron']
    n = len(tm)
    z = np.array([_f(model, f'z{i}', 0.3 * i) for i in range(n)])
    y = np.c_[tm, s]
    D = compiled_clone(Cox(efron))
    D.initialize(np.zeros((n, 1)), y)

    def V(zz):
        e = np.exp(zz)
        tot = 0.
        for tv in sorted(set(tm)):
            H = [i for i in range(n) if tm[i] == tv and s[i] == 1]
            if not H:
                continue
            Rk = [j for j in range(n) if tm[j] >= tv]
            for l in range(len(H)):
                tot += np.log(e[Rk].sum() - (l / len(H) * e[H].sum() if efron else 0.))
            tot -= zz[H].sum()
        return tot / n
    try:
        val = float(D.value(y, np.zeros(1), z))
        rg = np.asarray(D.raw_grad(y, z))
    except Exception as ex:     # noqa
        return dict(confirmed=True, detail=f'raised {type(ex).__name__}: {ex}', inputs=dict(tm=tm.tolist(), s=s.tolist(), z=z.tolist()))
    h = 1e-6
    fd = np.array([(V(z + h * np.eye(n)[i]) - V(z - h * np.eye(n)[i])) / (2 * h) for i in range(n)])
    bad = abs(val - V(z)) > 1e-8 * (1 + abs(V(z))) or np.any(np.abs(rg - fd) > 1e-5 * (1 + np.abs(fd)))
    return dict(confirmed=bool(bad), detail=f'value={val} spec={V(z)}; raw_grad={rg.tolist()} spec grad={fd.tolist()}',
                inputs=dict(tm=tm.tolist(), s=s.tolist(), z=z.tolist(), use_efron=efron))


def replay_group(args, model):
    from skglm.datafits import QuadraticGroup, LogisticGroup
    from skglm.utils.jit_compilation import compiled_clone
    from .c06 import _csc_from_pattern
    which, method = args['which'], args['method']
    n, p = 2, 3
    pat = args.get('pattern')
    X = np.array([[_f(model, f'X{i}_{j}') if (pat is None or pat[i][j]) else 0. for j in range(p)] for i in range(n)], order='F')
    y = np.array([_f(model, f'y{i}', 1.0) for i in range(n)])
    z = np.array([_f(model, f'z{i}') for i in range(n)])
    w = np.zeros(p)
    D = compiled_clone((QuadraticGroup if which == 'QuadraticGroup' else LogisticGroup)(GP, GI))
    raw = (z - y) / n if which == 'QuadraticGroup' else -y / (1 + np.exp(y * z)) / n
    g = X.T @ raw
    inputs = dict(X=X.tolist(), y=y.tolist(), Xw=z.tolist(), method=method)
    try:
        if method == 'gradient_g':
            got, exp = D.gradient_g(X, y, w, z, args['g']), g[GROUPS[args['g']]]
        elif method == 'gradient_g_sparse':
            Xs = _csc_from_pattern(X, pat)
            got, exp = D.gradient_g_sparse(Xs.data, Xs.indptr, Xs.indices, y, w, z, args['g']), g[GROUPS[args['g']]]
        elif method == 'gradient_scalar':
            got, exp = D.gradient_scalar(X, y, w, z, args['j']), g[args['j']]
        else:
            got = D.value(y, w, z)
            exp = np.sum((y - z) ** 2) / (2 * n) if which == 'QuadraticGroup' else np.sum(np.log1p(np.exp(-y * z))) / n
    except Exception as ex:     # noqa
        return dict(confirmed=True, detail=f'raised {type(ex).__name__}: {ex}', inputs=inputs)
    got, exp = np.asarray(got, dtype=float), np.asarray(exp, dtype=float)
    bad = got.shape != exp.shape or np.any(np.abs(got - exp) > 1e-8 * (1 + np.abs(exp)))
    return dict(confirmed=bool(bad), detail=f'{which}.{method} = {got.tolist()} ; expected {exp.tolist()}', inputs=inputs)


# ----------------------------------------------------------------------------- sparse_ops

def columns_slice_task(T):
    """sparse_columns_slice(cols, data, indptr, indices) denotes X[:, cols]: for every CSC pattern of a 2x3 design (empty columns
    included) and every ordered pair of distinct columns"""
    import z3
    from pv import sym, symrun
    from pv.sproof import check_contract
    from .c06 import Env, patterns
    symrun.install()
    fn = symrun.get('skglm.utils.sparse_ops', 'sparse_columns_slice')
    e = Env(2, 3)
    L = sym.lift
    import itertools
    for pat in patterns(2, 3):
        tag = ''.join(str(b) for r in pat for b in r)
        for cols in itertools.permutations(range(3), 2):
            def run(pat=pat, cols=cols):
                data, indptr, indices = e.csc(pat)
                return fn(np.array(cols, dtype=np.int32), data, indptr, indices)

            def post(out, pth, pat=pat, cols=cols):
                d, ip, ix = out
                # densify the result and compare with the selected columns
                ok_struct = len(ip) == len(cols) + 1 and int(ip[0]) == 0 and all(int(ip[k]) <= int(ip[k + 1]) for k in range(len(cols))) \
                    and int(ip[-1]) == len(d) == len(ix)
                cs = [('valid-csc-structure', [], z3.BoolVal(bool(ok_struct)))]
                if not ok_struct:
                    return cs
                for k, j in enumerate(cols):
                    dense = {int(ix[t]): d[t] for t in range(int(ip[k]), int(ip[k + 1]))}
                    for i in range(2):
                        got = L(dense[i]) if i in dense else z3.RealVal(0)
                        cs.append((f'[{i},{k}]==X[{i},{j}]', [], got == e.Xz(pat, i, j)))
                return cs
            check_contract(T, f'slice[csc={tag},cols={cols[0]}{cols[1]}]', run, [], post, strength='B', safety=False)


add_task(['C09', 'C10'], 'sparse_ops:sparse_columns_slice', columns_slice_task, strength='B')


def spectral_norm_task(T, iters, unit_start=False):
    """spectral_norm returns sqrt of a Rayleigh quotient v^T X X^T v of a UNIT vector v (hence never above ||X||_2: Rayleigh, trusted
    lemma); start vector symbolic (np.random.randn replaced by a symbolic non-zero vector for the run), `iters` power iterations.
    How close it gets to ||X||_2 is convergence of the power method: not decided."""
    import z3
    from pv import sym, symrun
    from pv.sproof import check_contract, zpre
    from .c06 import Env
    symrun.install()
    import skglm.utils.sparse_ops as so
    e = Env(2, 2)
    R = sym.SymReal
    v0 = [z3.Real('v0'), z3.Real('v1')]
    L = sym.lift
    pat = [[1, 1], [0, 1]]

    class RNG:
        @staticmethod
        def randn(n):
            return np.array([R(t) for t in v0], dtype=object)

    class NPX:
        random = RNG

        def __getattr__(self, n):
            return getattr(so_np, n)
    so_np = so.np

    def run():
        so.np = NPX()
        try:
            data, indptr, indices = e.csc(pat)
            return so.spectral_norm(data, indptr, indices, 2, max_iter=iters, tol=0.)
        finally:
            so.np = so_np
    Xz = [[e.Xz(pat, i, k) for k in range(2)] for i in range(2)]
    # G = X X^T
    G = [[z3.Sum([Xz[i][k] * Xz[j][k] for k in range(2)]) for j in range(2)] for i in range(2)]
    u = [z3.Real('u0'), z3.Real('u1')]

    def post(out, pth):
        r = L(out)
        # one power iteration from v: the returned value is the Rayleigh quotient of the unit vector v/||v||:
        #   r^2 * (v.v) == v^T (X X^T) v     (then r <= ||X||_2 by the Rayleigh bound, trusted lemma)
        vv = v0[0] * v0[0] + v0[1] * v0[1]
        vGv = z3.Sum([v0[i] * G[i][j] * v0[j] for i in range(2) for j in range(2)])
        return [('result>=0', [], r >= 0), ('result^2==rayleigh-quotient-of-a-unit-vector', [], r * r * vv == vGv)]
    # quick tier: the start vector is taken of unit length (the code's own normalisation then divides by 1): the identity is a
    # degree-2 query; the general start vector (degree 4 after clearing the normalisation) is the thorough-tier variant
    start = [v0[0] * v0[0] + v0[1] * v0[1] == 1] if unit_start else [z3.Or(v0[0] != 0, v0[1] != 0)]
    check_contract(T, f'spectral_norm[iters={iters}{",unit-start" if unit_start else ""}]', run, zpre(start), post, strength='B', safety=False)


add_task('C09', 'sparse_ops:spectral_norm[iters=1,unit-start]', spectral_norm_task, strength='B', iters=1, unit_start=True)
add_task('C09', 'sparse_ops:spectral_norm[iters=1]', spectral_norm_task, strength='B', tier='thorough', iters=1)


def target_domain_task(T, name):
    """Poisson / Gamma initialize and initialize_sparse refuse targets outside the loss's domain (y < 0, resp. y <= 0) with a
    ValueError, and accept every target inside it"""
    import z3
    from pv import sym, symrun
    from pv.sym import explore
    from .c06 import Env
    symrun.install()
    K = symrun.get('skglm.datafits.single_task', name)
    e = Env(2, 2)
    bad = (lambda t: t < 0) if name == 'Poisson' else (lambda t: t <= 0)
    for meth in ('initialize', 'initialize_sparse'):
        def run(meth=meth):
            D = K()
            if meth == 'initialize':
                D.initialize(e.symX(), e.sym(e.y))
            else:
                data, indptr, indices = e.csc([[1, 1], [1, 1]])
                D.initialize_sparse(data, indptr, indices, e.sym(e.y))
            return 'accepted'
        for k, pth in enumerate(explore(run)):
            viol = z3.Or(*[bad(t) for t in e.y])
            if pth.exc is not None:
                ok_kind = pth.exc[0] == 'ValueError' and 'positive' in pth.exc[1]
                T.prove(f'{meth}/refusal-only-for-invalid-targets@p{k}', pth.pc + pth.defs, viol, strength='B')
                (T.ok if ok_kind else T.failed)(f'{meth}/refusal-is-an-explanatory-ValueError@p{k}', note=str(pth.exc), strength='B')
            else:
                T.prove(f'{meth}/accepted-only-valid-targets@p{k}', pth.pc + pth.defs, z3.Not(viol), strength='B')


for _n in ('Poisson', 'Gamma'):
    add_task(['C19', 'C06', 'C13'], f'single_task:{_n}.initialize(_sparse)/target-domain', target_domain_task, strength='B', name=_n)

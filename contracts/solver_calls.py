"""Call contracts used by the opaque-mode interpreter (pv/struct.py) on the solver orchestrators.

Every entry is the CONTRACT of a callee (skglm kernel / datafit or penalty method / numpy function) as seen
by a caller: which arguments it may modify (frame) and what its result is, expressed with uninterpreted
functions of argument *versions*:

    SCORE(wv, lo, xv, j, strat, aux)   the optimality score of feature/group j for coefficients version wv (slice
                                       offset lo) and the datafit gradient at the model-fit version xv
                                       [justified per penalty/datafit by the C08 / C06 kernel contracts]
    ISTEP(xv), SUMRAW(xv)              datafit.intercept_update_step / sum of raw_grad at xv
    DVAL(wv, xv), PVAL(wv, lo, n)      datafit.value / penalty.value of a slice
Ghost state: provenance of gradient arrays, consistency (Inv) of (w, Xw) pairs, zero-outside-index-set facts.
"""
import ast

import z3

from pv.struct import (V, I, R, B, selr, seli, selb, alen, fresh, SInt, SReal, SBool, SStr, SNone, SInf, STuple,
                       SList, SArr, SObj, SOpaque, SFunc, to_int, to_real, to_bool, dotted, Unsupported, strcode)

SCORE = z3.Function('SCORE', V, I, V, I, I, V, R)
ISTEP = z3.Function('ISTEP', V, R)
SUMRAW = z3.Function('SUMRAW', V, R)
DVAL = z3.Function('DVAL', V, V, R)
PVAL = z3.Function('PVAL', V, I, I, R)
NOAUX = z3.Const('noaux', V)
SUBDIFF, FIXPOINT = 1, 2


def zabs(t):
    return z3.If(t >= 0, t, -t)


def newarr(st, hint, n=None, kind='r'):
    return SArr(st.newloc(hint, n), kind=kind)


def prov(st):
    return st.ghost.setdefault('prov', {})


SITE_OBLS = []       # obligations raised at program points during one interpretation (reset by the driver)


def obl(st, name, goal, node=None, **info):
    """an obligation raised at a program point: checked later under the path condition at that point,
    then assumed on the rest of the path"""
    SITE_OBLS.append(dict(name=name, pc=list(st.pc), qf=list(st.qfacts), goal=goal,
                          line=getattr(node, 'lineno', None) or info.get('line_hint'), info=info))
    st.pc.append(goal)


# ----------------------------------------------------------------------------- Inv ghost (w, Xw) pairs

class Pairs(dict):
    def copy(self):
        p = Pairs()
        for k, v in self.items():
            p[k] = dict(v)
        return p


def pairs(st):
    if 'pairs' not in st.ghost:
        st.ghost['pairs'] = Pairs()
    return st.ghost['pairs']


def flags(st):
    return st.ghost.setdefault('flags', {})      # loc -> ('zero'|'entry', version, partner)


def gram_tag(st, loc):
    """is the array at `loc` (current version) of the form  M @ a - b  or  -b  (a Gram-form gradient G a - X^T y / n)?"""
    ver = st.heap.get(loc)
    evs = {e['loc']: e for e in st.events if e['kind'] == 'pure' and 'op' in e}
    e = evs.get(loc)
    if e is None or ver is None:
        return None
    if e['op'] == 'USub' and e['operands'][0] is not None:
        return dict(kind='affine0', b=e['operands'][0])
    if e['op'] == 'Sub' and e['operands'][0] is not None and e['operands'][1] is not None:
        inner = evs.get(e['operands'][0][0])
        if inner is not None and inner['op'] == 'MatMult' and inner['operands'][1] is not None:
            return dict(kind='affine', a=inner['operands'][1], M=inner['operands'][0], b=e['operands'][1])
    return None


def get_pair(st, wloc, xloc):
    p = pairs(st)
    key = (wloc, xloc)
    if key not in p:
        fw, fx = flags(st).get(wloc), flags(st).get(xloc)
        ok = False
        gt = gram_tag(st, xloc)
        created = {e['loc'] for e in st.events if e['kind'] == 'write'}
        if gt is not None and xloc not in created:
            # grad = -b pairs with an all-zero w ; grad = M @ a - b pairs with w when a is w (same array, same version)
            if gt['kind'] == 'affine0' and fw and fw[0] == 'zero' and fw[1].eq(st.heap[wloc]):
                ok = True
            if gt['kind'] == 'affine' and gt['a'][0] == wloc and gt['a'][1].eq(st.heap[wloc]):
                ok = True
        if fw and fx and fw[1].eq(st.heap[wloc]) and fx[1].eq(st.heap[xloc]):
            if fw[0] == 'zero' and fx[0] == 'zero':
                ok = True
            if fw[0] == 'entry' and fx[0] == 'entry' and fw[2] == xloc:
                ok = True
        p[key] = dict(ok=z3.BoolVal(ok), rho=z3.RealVal(0))
    return p[key]


def fl_before(st, ev):
    """locs whose all-zero flag was current just before this write"""
    out = set()
    for l, f in flags(st).items():
        if f[0] == 'zero' and f[1].eq(ev['old'] if l == ev['loc'] else st.heap[l]):
            out.add(l)
    return out


def on_write(ip, st, ev):
    """keep the Inv ghost in step with every array write"""
    loc = ev['loc']
    fl = flags(st)
    zero_fill = ev.get('full') and ev.get('scalar') is not None and ev.get('view') == (None, None) and \
        z3.is_true(z3.simplify(to_real(ev['scalar']) == 0))
    im = st.ghost.setdefault('infmask', {})
    if ev.get('fancy') and ev['fancy'][2] == 'b' and isinstance(ev.get('scalar'), SInf):
        prev = im.get(loc)
        lst = list(prev[1]) if prev and prev[0].eq(ev['old']) else []
        lst.append((ev['fancy'][0], ev['fancy'][1]))
        im[loc] = (ev['new'], lst)
    else:
        im.pop(loc, None)
    # zero-outside-index-set facts
    zo = st.ghost.setdefault('zout', {})
    if ev.get('fancy') and ev['fancy'][2] == 'i':
        idx = (ev['fancy'][0], ev['fancy'][1])
        was_zero = (loc in fl_before(st, ev)) or False
        prevz = zo.get(loc) or []
        if was_zero or any(pz[0] == idx[0] and pz[1].eq(idx[1]) for pz in prevz):
            zo[loc] = [idx]
        else:
            zo[loc] = None
        ex = st.ghost.get('extrap', {})
        if ev.get('src') and ev['src'][0] in ex:
            st.ghost.setdefault('fancyfrom', {})[loc] = (ev['src'][0], ev['new'], zo[loc] is not None, idx)
    elif not zero_fill:
        zo[loc] = None
        st.ghost.setdefault('fancyfrom', {}).pop(loc, None)
    if zero_fill:
        fl[loc] = ('zero', ev['new'], None)
    else:
        fl.pop(loc, None)
    kp = ev.get('kernel_pair')
    fi = st.ghost.get('fit_intercept')
    for (wl, xl), pr in list(pairs(st).items()):
        if loc not in (wl, xl):
            continue
        if kp == (wl, xl):
            continue
        if loc == wl and 'elem' in ev and isinstance(ev.get('val'), (SReal, SInt)) and fi is not None:
            k = ev['elem']
            is_last = z3.simplify(k == alen(ev['old']) - 1)
            delta = to_real(ev['val']) - selr(ev['old'], k)
            # writing the intercept slot (last entry, only when fit_intercept) shifts the residual by -delta * 1
            pr['ok'] = z3.And(pr['ok'], fi, is_last)
            pr['rho'] = z3.simplify(pr['rho'] - delta)
            continue
        if loc == xl and ev.get('inplace') == 'Add' and ev.get('scalar') is not None and ev.get('view') == (None, None):
            pr['rho'] = z3.simplify(pr['rho'] + to_real(ev['scalar']))
            continue
        pr['ok'] = z3.BoolVal(False)
    # full copies  A[:] = B : remember, and recover a pair when both sides were copied from a consistent pair
    cp = st.ghost.setdefault('copyof', {})
    if ev.get('full') and ev.get('src') is not None and ev.get('view') == (None, None) and ev['src'][2] is None:
        cp[loc] = (ev['src'][0], ev['src'][1], ev['new'], ev['old'])
    else:
        cp.pop(loc, None)
    ff = st.ghost.get('fancyfrom', {})
    ex = st.ghost.get('extrap', {})
    for wl in list(ff):
        A, wnew, zok, idx = ff[wl]
        if not wnew.eq(st.heap[wl]) or A not in ex:
            continue
        Bx = ex[A]['x']
        for xl in [l for l in cp if cp[l][0] == Bx and cp[l][2].eq(st.heap[l])]:
            if loc in (wl, xl):
                pr = get_pair(st, wl, xl)
                if not pr.get('from_extrap') == (A, wnew.get_id(), st.heap[xl].get_id()):
                    same_idx = ex[A].get('idx') is not None and ex[A]['idx'][0] == idx[0] and ex[A]['idx'][1].eq(idx[1])
                    obl(st, 'extrapolated-point-is-zero-outside-the-working-set', z3.BoolVal(bool(zok and same_idx)),
                        None, prop='C01', line_hint=ev.get('line'), zok=zok, same_idx=same_idx, exidx=str(ex[A].get('idx')), idx=str(idx))
                    pr['ok'], pr['rho'] = z3.BoolVal(True), z3.RealVal(0)
                    pr['from_extrap'] = (A, wnew.get_id(), st.heap[xl].get_id())
    for (wl, xl), pr in list(pairs(st).items()):
        if wl in cp and xl in cp and loc in (wl, xl):
            (w2, wv2, wnew, wold), (x2, xv2, xnew, xold) = cp[wl], cp[xl]
            if wnew.eq(st.heap[wl]) and xnew.eq(st.heap[xl]) and st.heap[w2].eq(wv2) and st.heap[x2].eq(xv2):
                src = get_pair(st, w2, x2)
                pr['ok'], pr['rho'] = src['ok'], src['rho']
                if src.get('from_extrap') or w2 in st.ghost.get('extrap', {}):
                    # an extrapolated point is copied into (w, Xw): the copy must be dominated by a test showing that
                    # the TRUE objective (datafit.value + penalty.value(w[:n_features]) of the same arrays) decreased
                    nf = z3.Int('n_features')
                    if xl in st.ghost.get('gramgrad', set()) and st.ghost.get('gram_G'):
                        new_obj = gram_objective(st, wv2, st.ghost['gram_G'])
                        old_obj = gram_objective(st, wold, st.ghost['gram_G'])
                    else:
                        new_obj = DVAL(wv2, xv2) + PVAL(wv2, z3.IntVal(0), nf)
                        old_obj = DVAL(wold, xold) + PVAL(wold, z3.IntVal(0), nf)
                    obl(st, 'accepted-extrapolation-decreases-the-objective', new_obj < old_obj, None, prop='C03',
                        line_hint=ev.get('line'))


# ----------------------------------------------------------------------------- numpy & builtins

def c_zeros(ip, st, args, kw, node):
    shp = args[0]
    if isinstance(shp, (STuple,)) or isinstance(shp, SList):
        a = newarr(st, 'zeros2d')
        a.ndim = 2
        return a
    a = newarr(st, 'zeros', to_int(shp))
    nv = st.ver(a)
    st.qfacts.append(lambda k, nv=nv: selr(nv, k) == 0)
    flags(st)[a.loc] = ('zero', nv, None)
    return a


def c_arange(ip, st, args, kw, node):
    a = newarr(st, 'arange', to_int(args[0]), 'i')
    nv = st.ver(a)
    st.qfacts.append(lambda k, nv=nv: seli(nv, k) == k)
    st.ghost.setdefault('arange', {})[a.loc] = nv
    return a


def c_ones(ip, st, args, kw, node):
    return newarr(st, 'ones', to_int(args[0]) if not isinstance(args[0], (STuple, SList)) else None)


def c_sum(ip, st, args, kw, node):
    a = args[0]
    if isinstance(a, SArr) and a.kind == 'b':
        return SInt(count_of(st, a))
    if isinstance(a, SArr):
        p = prov(st).get(a.loc)
        if p and p['kind'] == 'rawgrad' and p['ver'].eq(st.ver(a)):
            return SReal(SUMRAW(p['xv']))
        return SReal(fresh(R, 'sum'))
    return SReal(fresh(R, 'sum'))


def count_of(st, a):
    """number of True entries of a boolean array version (one term per version)"""
    cn = st.ghost.setdefault('counts', {})
    key = (a.loc, st.ver(a).get_id())
    if key not in cn:
        c = fresh(I, 'count')
        st.pc += [c >= 0, c <= st.vlen(a)]
        cn[key] = c
    return cn[key]


def union_count_facts(st, masks, U):
    """counting facts about boolean masks that the code itself built with ~ , & and | (all sound identities):
    |A u B| == |A| + |B & ~A| ;  |A | B| is the union count ; |~A| == n - |A| ; |A & B| <= |A|, |B|"""
    out = []
    cur = lambda lv: st.heap.get(lv[0]) is not None and st.heap[lv[0]].eq(lv[1])
    nots = {l: t for l, t in st.ghost.get('notmask', {}).items() if st.heap[l].eq(t[0])}

    def complement(x, y):           # x == ~y or y == ~x (as array versions)
        for l, (nv, ol, ov) in nots.items():
            if (x[1].eq(nv) and y[1].eq(ov)) or (y[1].eq(nv) and x[1].eq(ov)):
                return True
        return False
    for l, (nv, ol, ov) in nots.items():
        out.append(count_of(st, SArr(l, kind='b')) == st.vlen(SArr(ol, kind='b')) - count_at(st, ol, ov))
    if len(masks) == 2:
        A, B = masks
        for l, (nv, x, y) in st.ghost.get('andmask', {}).items():
            if not st.heap[l].eq(nv):
                continue
            cm = count_of(st, SArr(l, kind='b'))
            out += [cm <= count_at(st, *x), cm <= count_at(st, *y)]
            for (P, Q) in ((A, B), (B, A)):
                for (u, v) in ((x, y), (y, x)):
                    if u[1].eq(Q[1]) and complement(v, P):          # the mask is  Q & ~P
                        out.append(U == count_at(st, *P) + cm)
        for l, (nv, x, y) in st.ghost.get('ormask', {}).items():
            if st.heap[l].eq(nv) and ((x[1].eq(A[1]) and y[1].eq(B[1])) or (x[1].eq(B[1]) and y[1].eq(A[1]))):
                out.append(U == count_of(st, SArr(l, kind='b')))
    return out


def count_at(st, loc, ver):
    cn = st.ghost.setdefault('counts', {})
    key = (loc, ver.get_id())
    if key not in cn:
        c = fresh(I, 'count')
        st.pc += [c >= 0, c <= alen(ver)]
        cn[key] = c
    return cn[key]


def c_npmax(ip, st, args, kw, node):
    a = args[0]
    if not isinstance(a, SArr):
        return SReal(fresh(R, 'max'))
    m = fresh(R, 'max')
    av, n, lo = st.ver(a), st.vlen(a), st.lo(a)
    st.qfacts.append(lambda k, m=m, av=av, n=n, lo=lo: z3.Implies(z3.And(k >= 0, k < n), m >= selr(av, lo + k)))
    st.events.append(dict(kind='npmax', of=a.loc, ver=av, term=m, n=n, line=node.lineno))
    return SReal(m)


def c_max(ip, st, args, kw, node):
    a, b = args
    if isinstance(a, SInf) or isinstance(b, SInf):
        return SInf()
    if all(isinstance(x, (SInt, SBool)) for x in (a, b)):
        x, y = to_int(a), to_int(b)
        return SInt(z3.If(x >= y, x, y))
    x, y = to_real(a), to_real(b)
    return SReal(z3.If(x >= y, x, y))


def c_min(ip, st, args, kw, node):
    a, b = args
    if all(isinstance(x, (SInt, SBool)) for x in (a, b)):
        x, y = to_int(a), to_int(b)
        return SInt(z3.If(x <= y, x, y))
    x, y = to_real(a), to_real(b)
    return SReal(z3.If(x <= y, x, y))


def c_abs(ip, st, args, kw, node):
    a = args[0]
    if isinstance(a, SArr):
        return ip.pure_array(st, 'abs', [a])
    if isinstance(a, SOpaque):
        return SOpaque('abs')
    return SReal(zabs(to_real(a)))


def c_len(ip, st, args, kw, node):
    a = args[0]
    if isinstance(a, SArr):
        return SInt(st.vlen(a))
    if isinstance(a, SList):
        return SInt(st.lists[a.loc]['n'])
    if isinstance(a, SObj) and a.name == 'y':
        # len(y) is NOT X.shape[0] in general (for the SVC dual the solver is handed the (n_features, n_samples) design y X^T):
        # a symbol of its own
        n = z3.Int('len_y')
        st.pc.append(n >= 1)
        return SInt(n)
    n = fresh(I, 'len')
    st.pc.append(n >= 0)
    return SInt(n)


def c_noop(ip, st, args, kw, node):
    return SNone()


def c_opaque(ip, st, args, kw, node):
    return SOpaque(dotted(node.func))


def c_issparse(ip, st, args, kw, node):
    return SBool(z3.Bool('X_is_sparse'))


def c_argpartition(ip, st, args, kw, node):
    a = args[0]
    out = newarr(st, 'argpart', st.vlen(a), 'i')
    ov, n = st.ver(out), st.vlen(a)
    st.qfacts.append(lambda k, ov=ov, n=n: z3.Implies(z3.And(k >= 0, k < n), z3.And(seli(ov, k) >= 0, seli(ov, k) < n)))
    st.events.append(dict(kind='argpartition', out=out.loc, of=a.loc, ver=st.ver(a)))
    masks = st.ghost.get('infmask', {}).get(a.loc)
    if masks and masks[0].eq(st.ver(a)) and len(args) > 1 and isinstance(args[1], SInt):
        # the k largest entries are kept (callers slice [-k:]); entries forced to +inf must all be kept, i.e.
        # k >= |union of the masks|.  Only bounds of the union are known: max_i c_i <= U <= min(sum_i c_i, n)
        k = z3.simplify(-args[1].t)
        cs = [count_of(st, SArr(ml, kind='b')) if st.heap[ml].eq(mv) else None for ml, mv in masks[1]]
        if all(c is not None for c in cs):
            U = fresh(I, 'union_count')
            st.pc += [U >= c for c in cs] + [U <= z3.Sum(cs), U <= n]
            st.pc += union_count_facts(st, masks[1], U)
            obl(st, 'working-set-covers-support-and-unpenalised', k >= U, node, prop='C01', counts=cs, k=k)
            st.ghost.setdefault('covers', {})[out.loc] = True
            # progress: unless it holds every feature, the working set has room for at least one feature that is not forced in
            # (otherwise no penalised coefficient can ever enter and the outer loop makes no progress below alpha_max)
            obl(st, 'working-set-has-room-for-a-new-feature', z3.Or(k >= U + 1, k >= n), node, prop='C16', counts=cs, k=k)
    return out


def c_append(ip, st, args, kw, node):
    a, v = args
    out = newarr(st, 'appended', st.vlen(a) + 1, a.kind)
    st.ghost.setdefault('append_of', {})[out.loc] = (a.loc, st.ver(a), a.lo, a.hi, v, st.ver(out))
    return out


def c_list_append(ip, st, args, kw, node):
    lst, v = args
    if not isinstance(lst, SList):
        raise Unsupported('append on a non-list')
    L = st.lists[lst.loc]
    L['n'] = L['n'] + 1
    L['last'] = v
    L['appends'] = L.get('appends', 0) + 1
    st.events.append(dict(kind='append', lst=lst.loc, val=v, line=node.lineno,
                          snap={k: st.heap[k] for k in st.heap}))
    return SNone()


def c_array_from_list(ip, st, args, kw, node):
    a = args[0]
    if isinstance(a, SList):
        out = newarr(st, 'fromlist', st.lists[a.loc]['n'])
        st.ghost.setdefault('fromlist', {})[out.loc] = a.loc
        return out
    if isinstance(a, SArr):
        return a
    return SOpaque('np.array')


def c_copy(ip, st, args, kw, node):
    a = args[0]
    if not isinstance(a, SArr):
        return SOpaque('copy')
    out = newarr(st, 'copy', st.vlen(a), a.kind)
    nv, ov, lo = st.ver(out), st.ver(a), st.lo(a)
    if a.kind == 'r':
        st.qfacts.append(lambda k, nv=nv, ov=ov, lo=lo: selr(nv, k) == selr(ov, lo + k))
    st.events.append(dict(kind='copy', out=out.loc, src=a.loc, src_ver=ov, line=node.lineno))
    if a.lo is None and a.hi is None:
        st.ghost.setdefault('copyof', {})[out.loc] = (a.loc, ov, nv)
        f = flags(st).get(a.loc)
        if f and f[1].eq(ov):
            flags(st)[out.loc] = (f[0] + '-copy', nv, a.loc)
    return out


def c_zeros_like(ip, st, args, kw, node):
    a = args[0]
    if isinstance(a, SArr):
        out = newarr(st, 'zeros', st.vlen(a))
        nv = st.ver(out)
        st.qfacts.append(lambda k, nv=nv: selr(nv, k) == 0)
        flags(st)[out.loc] = ('zero', nv, None)
        return out
    return newarr(st, 'zeros')


# ----------------------------------------------------------------------------- skglm API

def _xv(st, Xw):
    if not isinstance(Xw, SArr):
        raise Unsupported('model-fit argument is not an array')
    return st.ver(Xw)


def grad_contract(st, Xw, ws, node, name, n=None):
    """gradient of the datafit at the model fit Xw restricted to the index set ws (None = all)"""
    g = newarr(st, 'grad', n)
    prov(st)[g.loc] = dict(kind='grad', xv=_xv(st, Xw), xloc=Xw.loc, ws=(ws.loc if ws is not None else None),
                           wsv=(st.ver(ws) if ws is not None else None), ver=st.ver(g), name=name)
    st.events.append(dict(kind='grad', out=g.loc, xloc=Xw.loc, xv=st.ver(Xw), line=node.lineno, name=name,
                          view=(Xw.lo, Xw.hi)))
    return g


def c_construct_grad(ip, st, args, kw, node):        # (X, y, w, Xw, datafit, ws)
    X, y, w, Xw, datafit, ws = args
    return grad_contract(st, Xw, ws, node, dotted(node.func))


def c_construct_grad_sparse(ip, st, args, kw, node):  # (data, indptr, indices, y, w, Xw, datafit, ws)
    Xw, ws = args[5], args[7]
    return grad_contract(st, Xw, ws, node, dotted(node.func))


def c_construct_grad_sparse_mt(ip, st, args, kw, node):  # multitask: (data, indptr, indices, Y, XW, datafit, ws)
    return grad_contract(st, args[4], args[6], node, dotted(node.func))


def c_full_grad_sparse(ip, st, args, kw, node):       # (data, indptr, indices, y, Xw)
    return grad_contract(st, args[4], None, node, dotted(node.func), z3.Int('n_features'))


def c_gradient(ip, st, args, kw, node):               # datafit.gradient(X, y, Xw)
    return grad_contract(st, args[2], None, node, dotted(node.func), z3.Int('n_features'))


def c_gradient_sparse(ip, st, args, kw, node):        # (data, indptr, indices, y, Xw)
    return grad_contract(st, args[4], None, node, dotted(node.func), z3.Int('n_features'))


def c_raw_grad(ip, st, args, kw, node):
    y, Xw = args
    g = newarr(st, 'rawgrad', st.vlen(Xw))
    prov(st)[g.loc] = dict(kind='rawgrad', xv=_xv(st, Xw), xloc=Xw.loc, ver=st.ver(g))
    return g


def c_raw_hessian(ip, st, args, kw, node):
    y, Xw = args
    g = newarr(st, 'rawhess', st.vlen(Xw))
    prov(st)[g.loc] = dict(kind='rawhess', xv=_xv(st, Xw), xloc=Xw.loc, ver=st.ver(g))
    return g


def score_contract(ip, st, w, grad, ws, strat, aux, node):
    o = newarr(st, 'opt', st.vlen(ws) if isinstance(ws, SArr) else None)
    p = prov(st).get(grad.loc) if isinstance(grad, SArr) else None
    if p is None and isinstance(grad, SArr) and (gram_tag(st, grad.loc) is not None or grad.loc in st.ghost.get('gramgrad', set())):
        # Gram solver: the gradient array itself is the state the score is computed from
        st.ghost.setdefault('gramgrad', set()).add(grad.loc)
        p = dict(kind='grad', xv=st.ver(grad), xloc=grad.loc, ws=None, wsv=None, ver=st.ver(grad), name='gram')
    ok = bool(p and p['kind'] == 'grad' and p['ver'].eq(st.ver(grad)))
    same_ws = ok and ((p['wsv'] is not None and p['wsv'].eq(st.ver(ws))) or
                      (p['wsv'] is None and ws.loc in st.ghost.get('arange', {})))
    ev = dict(kind='score', out=o.loc, wloc=w.loc, wv=st.ver(w), lo=st.lo(w), wlen=st.vlen(w), strat=strat,
              ws=ws.loc, wsv=st.ver(ws), line=node.lineno, grad_ok=ok and same_ws,
              xv=(p['xv'] if ok else None), xloc=(p['xloc'] if ok else None), aux=aux)
    st.events.append(ev)
    if ok and same_ws:
        ov, wv, lo, xv, wsv = st.ver(o), st.ver(w), st.lo(w), p['xv'], st.ver(ws)
        st.qfacts.append(lambda k, ov=ov, wv=wv, lo=lo, xv=xv, wsv=wsv, strat=strat, aux=aux:
                         selr(ov, k) == SCORE(wv, lo, xv, seli(wsv, k), strat, aux))
    return o


def c_subdiff_distance(ip, st, args, kw, node):       # penalty.subdiff_distance(w, grad, ws)
    w, grad, ws = args
    return score_contract(ip, st, w, grad, ws, SUBDIFF, NOAUX, node)


def c_dist_fix_point(ip, st, args, kw, node):         # (w, grad_ws, lipschitz_ws, datafit, penalty, ws)
    w, grad, lips, datafit, penalty, ws = args
    aux = st.ver(lips) if isinstance(lips, SArr) else NOAUX
    return score_contract(ip, st, w, grad, ws, FIXPOINT, aux, node)


def c_istep(ip, st, args, kw, node):
    y, Xw = args
    st.events.append(dict(kind='istep', xloc=Xw.loc, xv=st.ver(Xw), line=node.lineno))
    return SReal(ISTEP(_xv(st, Xw)))


def c_dval(ip, st, args, kw, node):
    y, w, Xw = args
    if not isinstance(w, SArr) or not isinstance(Xw, SArr):
        return SReal(fresh(R, 'dval'))
    return SReal(DVAL(st.ver(w), st.ver(Xw)))


def c_pval(ip, st, args, kw, node):
    w = args[0]
    if not isinstance(w, SArr):
        return SReal(fresh(R, 'pval'))
    return SReal(PVAL(st.ver(w), st.lo(w), st.vlen(w)))


def c_is_penalized(ip, st, args, kw, node):
    a = newarr(st, 'pen', to_int(args[0]), 'b')
    return a


def c_gsupp(ip, st, args, kw, node):
    w = args[0]
    cache = st.ghost.setdefault('gsupp', {})
    key = (st.ver(w).get_id(), str(st.lo(w)), str(st.vlen(w)))
    if key in cache and cache[key][1].eq(st.heap[cache[key][0].loc]):
        return cache[key][0]
    a = newarr(st, 'gsupp', st.vlen(w), 'b')
    cache[key] = (a, st.ver(a))
    st.events.append(dict(kind='gsupp', out=a.loc, wloc=w.loc, wv=st.ver(w)))
    return a


def c_lipschitz(ip, st, args, kw, node):
    # one constant per item: per feature for the single-task datafits, per group for the group datafits (shape contract of the
    # datafit's get_lipschitz, checked on the real methods by C09's tasks)
    return newarr(st, 'lips', z3.Int(st.ghost.get('items', 'n_features')))


def c_global_lipschitz(ip, st, args, kw, node):
    L = fresh(R, 'L')
    return SReal(L)


def c_initialize(ip, st, args, kw, node):
    st.events.append(dict(kind='initialize', name=dotted(node.func), line=node.lineno))
    return SNone()


def shape_preconditions(ip, st, name, w, Xw, lips, ws, node, w_full=False):
    """C20, caller side: the shapes a compiled epoch kernel relies on (it indexes w[j], lipschitz[j] / X[:, j] for j in ws and
    Xw[i] for every sample) are established at the call site, for every size:
        len(w view) == n_features, len(Xw) == n_samples, len(lipschitz) == number of items, every entry of ws in [0, items)"""
    nf, ns = z3.Int('n_features'), z3.Int('n_samples')
    items = z3.Int(st.ghost.get('items', 'n_features'))
    if isinstance(w, SArr) and w_full:
        # prox-Newton kernels take the whole coefficient vector (intercept entry last) and the fit_intercept flag
        fi = st.ghost.get('fit_intercept')
        obl(st, f'{name}:len(w-argument)==n_features+fit_intercept', st.vlen(w) == nf + z3.If(fi, 1, 0), node, prop='C20')
    elif isinstance(w, SArr):
        obl(st, f'{name}:len(w-argument)==n_features', st.vlen(w) == nf, node, prop='C20')
    if isinstance(Xw, SArr):
        obl(st, f'{name}:len(Xw-argument)==n_samples', st.vlen(Xw) == ns, node, prop='C20')
    if isinstance(lips, SArr):
        obl(st, f'{name}:len(lipschitz)==number-of-items', st.vlen(lips) == items, node, prop='C20')
    if isinstance(ws, SArr) and ws.kind == 'i':
        k = fresh(I, 'k')
        pos = st.lo(ws) + k
        inst = [qf(pos) for qf in st.qfacts] + [qf(k) for qf in st.qfacts]
        v = seli(st.ver(ws), pos)
        goal = z3.Implies(z3.And(k >= 0, k < st.vlen(ws)), z3.And(v >= 0, v < items))
        SITE_OBLS.append(dict(name=f'{name}:working-set-entries-in-[0,items)', pc=list(st.pc) + inst, qf=[], goal=goal,
                              line=getattr(node, 'lineno', None), info=dict(prop='C20')))


def index_check(ip, st, arr, i, n):
    """C20: a scalar subscript a[i] in a `_solve` is inside its array:  -len <= i < len"""
    obl(st, 'scalar-subscript-in-bounds', z3.And(i >= -n, i < n), None, prop='C20', line_hint=None)


def kernel_contract(name, wpos, xpos, preserves_inv=True):
    """an epoch kernel: modifies (w-slice, Xw) in place and preserves Xw - X w[:p] (kernel-level contract,
    discharged separately on the real kernel with front end S)"""
    def h(ip, st, args, kw, node):
        w, Xw = args[wpos], args[xpos]
        shape_preconditions(ip, st, name, w, Xw, args[xpos + 1] if len(args) > xpos + 1 else None, args[-1], node)
        pr = get_pair(st, w.loc, Xw.loc) if preserves_inv else None
        for a in (w, Xw):
            st.bump(a.loc, name, node, kernel=name, kernel_pair=((w.loc, Xw.loc) if preserves_inv else None))
            on_write(ip, st, st.events[-1])
        st.events.append(dict(kind='kernel', name=name, wloc=w.loc, xloc=Xw.loc, line=node.lineno,
                              wview=(w.lo, w.hi)))
        return SNone()
    return h


def descent_direction(wpos, xpos, wspos, n_out=3):
    """prox-Newton direction: returns (delta_w_ws, X_delta_w_ws, lipschitz_ws) with X_delta_w_ws == X_ws delta + delta_b
    (kernel-level contract); pure"""
    def h(ip, st, args, kw, node):
        w, Xw, ws = args[wpos], args[xpos], args[wspos]
        shape_preconditions(ip, st, '_descent_direction', w, Xw, None, ws, node, w_full=True)
        d = newarr(st, 'delta_w_ws')
        xd = newarr(st, 'X_delta_w_ws', st.vlen(Xw))
        lp = newarr(st, 'lipschitz_ws', st.vlen(ws))
        st.ghost.setdefault('direction', {})[d.loc] = dict(xd=xd.loc, dv=st.ver(d), xdv=st.ver(xd), ws=ws.loc, wsv=st.ver(ws))
        return STuple([d, xd, lp][:n_out])
    return h


def line_search(name, wpos, xpos, dpos, xdpos, wspos):
    """backtracking line search: w[ws(+intercept)] += t*delta, Xw += t*X_delta in place; preserves Xw - Xw - b iff the
    pair (delta, X_delta) is the consistent direction returned by one _descent_direction call on the same ws"""
    def h(ip, st, args, kw, node):
        w, Xw, d, xd, ws = args[wpos], args[xpos], args[dpos], args[xdpos], args[wspos]
        shape_preconditions(ip, st, name, w, Xw, None, ws, node, w_full=True)
        g = st.ghost.get('direction', {}).get(d.loc) if isinstance(d, SArr) else None
        ok = bool(g and isinstance(xd, SArr) and g['xd'] == xd.loc and g['dv'].eq(st.ver(d)) and g['xdv'].eq(st.ver(xd))
                  and g['ws'] == ws.loc and g['wsv'].eq(st.ver(ws)))
        obl(st, 'line-search-direction-is-consistent(X_delta==X.delta)', z3.BoolVal(ok), node, prop='C01')
        get_pair(st, w.loc, Xw.loc)
        for a in (w, Xw):
            st.bump(a.loc, name, node, kernel=name, kernel_pair=(w.loc, Xw.loc))
            on_write(ip, st, st.events[-1])
        st.events.append(dict(kind='kernel', name=name, wloc=w.loc, xloc=Xw.loc, line=node.lineno, wview=(w.lo, w.hi)))
        out = newarr(st, 'grad_ws', st.vlen(ws))
        return out
    return h


def c_pure_obj(ip, st, args, kw, node):
    return SObj(dotted(node.func) + '()')


def c_dot_obj(ip, st, args, kw, node):
    """M.dot(v): opaque result; one-dimensional when the argument is a vector"""
    v = args[-1] if args else None            # ('*.dot' passes the receiver first)
    one_d = (isinstance(v, SArr) and v.ndim == 1) or (isinstance(v, SObj) and v.attrs.get('ndim') == 1)
    return SObj(dotted(node.func) + '()', attrs={'ndim': 1} if one_d else None)


def c_slice_array(ip, st, args, kw, node):
    return newarr(st, 'sliced')


def c_format(ip, st, args, kw, node):
    return SStr(fresh(I, 'fmt'))


def c_gram_epoch(ip, st, args, kw, node):       # _gram_cd_epoch(scaled_gram, w, grad, penalty, greedy_cd) -> scores
    G, w, grad = args[0], args[1], args[2]
    st.ghost.setdefault('gramgrad', set()).add(grad.loc)
    if isinstance(G, SArr):
        st.ghost['gram_G'] = (G.loc, st.ver(G))
    get_pair(st, w.loc, grad.loc)
    for a in (w, grad):
        st.bump(a.loc, '_gram_cd_epoch', node, kernel='_gram_cd_epoch', kernel_pair=(w.loc, grad.loc))
        on_write(ip, st, st.events[-1])
    st.events.append(dict(kind='kernel', name='_gram_cd_epoch', wloc=w.loc, xloc=grad.loc, line=node.lineno, wview=(w.lo, w.hi)))
    n = st.vlen(w)
    allf = newarr(st, 'arange', n, 'i')
    av = st.ver(allf)
    st.qfacts.append(lambda k, av=av: seli(av, k) == k)
    st.ghost.setdefault('arange', {})[allf.loc] = av
    o = newarr(st, 'opt', n)
    ov, wv, gv = st.ver(o), st.ver(w), st.ver(grad)
    st.qfacts.append(lambda k, ov=ov, wv=wv, gv=gv: selr(ov, k) == SCORE(wv, z3.IntVal(0), gv, k, SUBDIFF, NOAUX))
    st.events.append(dict(kind='score', out=o.loc, wloc=w.loc, wv=wv, lo=z3.IntVal(0), wlen=n, strat=SUBDIFF, ws=allf.loc, wsv=av,
                          line=node.lineno, grad_ok=True, xv=gv, xloc=grad.loc, aux=NOAUX))
    return o


def gram_objective(st, wv, gq):
    """0.5 * w @ (G @ w) - c @ w + penalty.value(w) as the interpreter builds it (deterministic functions of versions); c is the
    array b of the Gram-form gradient G w - b"""
    from pv.struct import DOT
    b = None
    for loc in st.ghost.get('gramgrad', set()):
        t = gram_tag(st, loc)
        if t is not None:
            b = t['b']
    if b is None:
        return None
    half_w = z3.Function('PURE_Mult_SA', R, V, V)(z3.RealVal('0.5'), wv)
    Gw = z3.Function('PURE_MatMult_AA', V, V, V)(gq[1], wv)
    return DOT(half_w, Gw) - DOT(b[1], wv) + PVAL(wv, z3.IntVal(0), alen(wv))


def c_fresh_real(ip, st, args, kw, node):
    return SReal(fresh(R, 'real'))


def c_anderson_new(ip, st, args, kw, node):
    o = SObj(f'accelerator#{fresh(I, "acc")}')
    st.ghost.setdefault('acc', {})[o.name] = dict(ok=z3.BoolVal(True))
    st.events.append(dict(kind='acc-new', name=o.name, line=node.lineno))
    return o


def c_extrapolate(ip, st, args, kw, node):            # accelerator.extrapolate(w, Xw)
    if len(args) == 2:
        args = [ip.ev1(st, node.func.value)] + list(args)
    acc, w, Xw = args
    flag = fresh(B, 'is_extrap')
    A = newarr(st, 'w_extrap', st.vlen(w))
    Bx = newarr(st, 'Xw_extrap', st.vlen(Xw))
    st.events.append(dict(kind='extrapolate', acc=getattr(acc, 'name', '?'), w=w.loc, wv=st.ver(w), x=Xw.loc,
                          xv=st.ver(Xw), outw=A.loc, outx=Bx.loc, flag=flag, line=node.lineno))
    # the (w, Xw) pair handed to the accelerator must be consistent: stored iterates are then consistent by
    # induction, and an affine combination (coefficients summing to one) of consistent pairs is consistent
    fr = None
    for e in reversed(st.events):
        if e['kind'] == 'fancy-read' and e['loc'] == w.loc:
            fr = e
            break
    wbase = fr['src'] if fr else w.loc
    pr = get_pair(st, wbase, Xw.loc)
    obl(st, 'iterate-given-to-the-accelerator-is-consistent', z3.And(pr['ok'], pr['rho'] == 0), node, prop='C01')
    st.ghost.setdefault('extrap', {})[A.loc] = dict(x=Bx.loc, srcw=wbase, srcx=Xw.loc, flag=flag,
                                                     idx=((fr['idx'], fr['idx_ver']) if fr else None))
    if fr is None:
        p2 = get_pair(st, A.loc, Bx.loc)
        p2['ok'], p2['rho'] = z3.BoolVal(True), z3.RealVal(0)
    return STuple([A, Bx, SBool(flag)])


def attr_shape(ip, st, base, node):
    if isinstance(base, SObj) and base.name == 'X':
        return STuple([SInt(z3.Int('n_samples')), SInt(z3.Int('n_features'))])
    if isinstance(base, SArr):
        return STuple([SInt(st.vlen(base))])
    return SOpaque('shape')


BASE_CALLS = {
    'index-check': index_check,
    'np.zeros': c_zeros, 'np.empty': c_zeros, 'np.arange': c_arange, 'np.ones': c_ones, 'np.zeros_like': c_zeros_like,
    '*.sum': c_sum, 'np.sum': c_sum, 'np.max': c_npmax, 'max': c_max, 'min': c_min, 'np.abs': c_abs, 'abs': c_abs,
    'len': c_len, 'print': c_noop, 'warnings.warn': c_noop, 'ValueError': c_opaque, 'AttributeError': c_opaque,
    'sparse.issparse': c_issparse, 'issparse': c_issparse,
    'np.argpartition': c_argpartition, 'np.append': c_append, '*.append': c_list_append,
    'np.array': c_array_from_list, 'np.asarray': c_array_from_list, '*.copy': c_copy,
    'construct_grad': c_construct_grad, '_construct_grad': c_construct_grad,
    'construct_grad_sparse': c_construct_grad_sparse, '_construct_grad_sparse': c_construct_grad_sparse,
    'datafit.full_grad_sparse': c_full_grad_sparse, 'datafit.gradient': c_gradient,
    'datafit.gradient_sparse': c_gradient_sparse,
    'datafit.raw_grad': c_raw_grad, 'datafit.raw_hessian': c_raw_hessian,
    'penalty.subdiff_distance': c_subdiff_distance, 'dist_fix_point_cd': c_dist_fix_point,
    'dist_fix_point_bcd': c_dist_fix_point,
    'datafit.intercept_update_step': c_istep, 'datafit.value': c_dval, 'penalty.value': c_pval,
    'penalty.is_penalized': c_is_penalized, 'penalty.generalized_support': c_gsupp,
    'datafit.get_lipschitz': c_lipschitz, 'datafit.get_lipschitz_sparse': c_lipschitz,
    'datafit.get_global_lipschitz': c_global_lipschitz, 'datafit.get_global_lipschitz_sparse': c_global_lipschitz,
    'datafit.initialize': c_initialize, 'datafit.initialize_sparse': c_initialize,
    '_cd_epoch': kernel_contract('_cd_epoch', 2, 3), '_cd_epoch_sparse': kernel_contract('_cd_epoch_sparse', 4, 5),
    '_bcd_epoch': kernel_contract('_bcd_epoch', 2, 3), '_bcd_epoch_sparse': kernel_contract('_bcd_epoch_sparse', 4, 5),
    '_descent_direction': descent_direction(2, 3, 8), '_descent_direction_s': descent_direction(4, 5, 10),
    '_backtrack_line_search': line_search('_backtrack_line_search', 2, 3, 7, 8, 9),
    '_backtrack_line_search_s': line_search('_backtrack_line_search_s', 4, 5, 9, 10, 11),
    'modifies:_descent_direction': [], 'modifies:_descent_direction_s': [],
    'modifies:_backtrack_line_search': [2, 3], 'modifies:_backtrack_line_search_s': [4, 5],
    'X.multiply': c_pure_obj, 'modifies:X.multiply': [], 'X.toarray': c_pure_obj,
    '*.format': c_format, 'modifies:*.format': [], '_slice_array': c_slice_array, 'modifies:_slice_array': [],
    '_gram_cd_epoch': c_gram_epoch, 'modifies:_gram_cd_epoch': [1, 2], 'np.linalg.norm': c_fresh_real, 'modifies:np.linalg.norm': [],
    '*.dot': c_dot_obj, 'modifies:*.dot': [], '*.toarray': c_pure_obj, 'modifies:*.toarray': [],
    'UserWarning': c_opaque,
    'AndersonAcceleration': c_anderson_new, 'accelerator.extrapolate': c_extrapolate,
    'attr:X.shape': attr_shape,
    'modifies:_cd_epoch': [2, 3], 'modifies:_cd_epoch_sparse': [4, 5],
    'modifies:_bcd_epoch': [2, 3], 'modifies:_bcd_epoch_sparse': [4, 5],
    'modifies:*.append': [0],
}
for _pure in ('np.zeros', 'np.empty', 'np.arange', 'np.ones', '*.sum', 'np.sum', 'np.max', 'max', 'min', 'np.abs', 'abs',
              'len', 'print', 'warnings.warn', 'ValueError', 'AttributeError', 'sparse.issparse', 'issparse',
              'np.argpartition', 'np.append', 'np.array', 'np.asarray', '*.copy', 'construct_grad', '_construct_grad',
              'construct_grad_sparse', '_construct_grad_sparse', 'datafit.full_grad_sparse', 'datafit.gradient',
              'datafit.gradient_sparse', 'datafit.raw_grad', 'datafit.raw_hessian', 'penalty.subdiff_distance',
              'dist_fix_point_cd', 'dist_fix_point_bcd', 'datafit.intercept_update_step', 'datafit.value',
              'penalty.value', 'penalty.is_penalized', 'penalty.generalized_support', 'datafit.get_lipschitz',
              'datafit.get_lipschitz_sparse', 'datafit.get_global_lipschitz', 'datafit.get_global_lipschitz_sparse',
              'datafit.initialize', 'datafit.initialize_sparse', 'AndersonAcceleration', 'accelerator.extrapolate',
              'np.zeros_like'):
    BASE_CALLS.setdefault('modifies:' + _pure, [])


def self_obj(fields):
    """`self` of a solver: every hyper-parameter is a symbolic constant of its type"""
    attrs = {}
    for name, sort in fields.items():
        if sort == 'int':
            attrs[name] = SInt(z3.Int('self_' + name))
        elif sort == 'real':
            attrs[name] = SReal(z3.Real('self_' + name))
        elif sort == 'bool':
            attrs[name] = SBool(z3.Bool('self_' + name))
        elif sort == 'str':
            attrs[name] = SStr(z3.Int('self_' + name))
    return SObj('self', attrs)

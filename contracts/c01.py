"""C01 / C05 / C17 -- tasks on the solver orchestrators (see contracts/solvers.py)"""
from pv.core import add_task, describe
from .solvers import SOLVERS, solver_task

describe('C01', level='proof', floor=20,
         explanation='opaque-mode symbolic execution of every real `_solve`: certificate freshness/coverage/intercept, '
                     'Xw = Xw + b invariant (ghost residual, Houdini loop invariants), obligations at extrapolation acceptance',
         assumptions=['call contracts of contracts/solver_calls.py (kernels preserve the residual; score/gradient '
                      'are functions of the argument versions) -- discharged at kernel level by C06/C08 where stated',
                      'numpy/scipy functions by contract'])
describe('C17', level='proof', floor=5,
         explanation='opaque-mode postconditions on the returned objective history')
describe('C05', level='proof', floor=3,
         explanation='opaque-mode: in-place buffer contract of `_solve` and call-site preconditions in path/_glm_fit')


def _task(T, name, warm, props, shard):
    from pv import symrun  # noqa (keeps the process layout uniform)
    solver_task(T, name, warm, props, shard)


NSHARD = {'C01': 6, 'C05': 2, 'C17': 3, 'C03': 1, 'C16': 1, 'C20': 2}


for _n in SOLVERS:
    for _w in (False, True):
        for _p in ('C01', 'C05', 'C17', 'C03', 'C16', 'C20'):
            if (_p == 'C05' and not _w) or (_p == 'C16' and _n != 'AndersonCD'):
                continue
            for _s in range(NSHARD[_p]):
                add_task(_p, f'solvers:{_n}._solve[{"warm" if _w else "cold"}]', _task, name=_n, warm=_w, props=(_p,),
                         shard=(_s, NSHARD[_p]))

"""C09 -- global step-size constants: get_global_lipschitz / get_global_lipschitz_sparse of the single-task datafits.

The methods return  factor * ||A||_2^2  where the spectral norm comes from numpy (`norm(A, ord=2)`) or from the package's power
method (`spectral_norm(csc(A))`, whose Rayleigh identity is a contract of contracts/c06b.py).  The REAL method is executed (front end S,
3 samples x 2 features, every value real) with `norm` / `spectral_norm` replaced by a stub that RECORDS the matrix it is given and
returns a symbolic S >= 0 standing for its spectral norm.  Contract:

      result * (A^T A)[j][k]  ==  S^2 * sum_i M_i X_ij X_ik        for all j, k

i.e. result == lambda_max(sum_i M_i x_i x_i^T) whenever S^2 == lambda_max(A^T A): the returned constant is the largest eigenvalue of
the curvature bound of the datafit (M_i: the documented per-sample curvature bound of contracts/c06.py), hence an upper bound of the
Hessian along every direction.  (Spectral-norm accuracy of numpy / of the power iteration is not decided here.)
"""
import numpy as np

from pv.core import add_task

N, P = 3, 2


def global_lipschitz_task(T, name, sparse):
    import z3
    from pv import sym, symrun
    from pv.sproof import check_contract, zpre
    from .c06 import Env, BY_NAME, _sum
    symrun.install()
    df = BY_NAME[name]
    mod = __import__('importlib').import_module(df.module)
    K = getattr(mod, df.cls)
    e = Env(N, P)
    R = sym.SymReal
    L = sym.lift
    S = z3.Real('spectral_norm_of_A')
    rec = {}

    def stub_norm(A, ord=None, **kw):
        rec['A'] = np.array(A, dtype=object)
        rec['ord'] = ord
        return R(S)

    def stub_spectral(data, indptr, indices, n_samples, *a, **kw):
        A = np.zeros((int(n_samples), len(indptr) - 1), dtype=object)
        for j in range(len(indptr) - 1):
            for idx in range(indptr[j], indptr[j + 1]):
                A[indices[idx], j] = A[indices[idx], j] + data[idx]
        rec['A'] = A
        rec['ord'] = 2
        return R(S)
    full = [[1] * P for _ in range(N)]

    def run():
        rec.clear()
        D = df.make(K, e)
        saved = {k: getattr(mod, k, None) for k in ('norm', 'spectral_norm')}
        try:
            mod.norm, mod.spectral_norm = stub_norm, stub_spectral
            if sparse:
                out = D.get_global_lipschitz_sparse(*e.csc(full), e.sym(e.y))
            else:
                out = D.get_global_lipschitz(e.symX(), e.sym(e.y))
        finally:
            for k, v in saved.items():
                if v is not None:
                    setattr(mod, k, v)
        return out, dict(rec)

    def post(out, p):
        res, r = out
        A = r.get('A')
        cs = [('spectral-norm-of-a-2-D-matrix-is-taken(ord=2)', [], z3.BoolVal(A is not None and A.ndim == 2 and r.get('ord') == 2))]
        if A is None or A.ndim != 2:
            return cs
        if A.shape == (N, P):
            G = [[_sum(L(A[i, j]) * L(A[i, k]) for i in range(N)) for k in range(P)] for j in range(P)]
        elif A.shape == (P, N):
            G = [[_sum(L(A[j, i]) * L(A[k, i]) for i in range(N)) for k in range(P)] for j in range(P)]
        else:
            return cs + [('matrix-has-the-shape-of-X-or-X.T', [], z3.BoolVal(False))]
        for j in range(P):
            for k in range(j, P):
                cs.append((f'result*(A^T.A)[{j}][{k}]==S^2*sum_i(M_i.X_i{j}.X_i{k})', [],
                           L(res) * G[j][k] == S * S * _sum(df.M(e, i) * e.X[i][j] * e.X[i][k] for i in range(N))))
        return cs
    pre = zpre(df.pre(e) + [S >= 0])
    check_contract(T, f'{name}.get_global_lipschitz{"_sparse" if sparse else ""}', run, pre, post, strength='B',
                   replay=dict(fn='contracts.c09g:replay', args=dict(name=name, sparse=sparse)))


def _register():
    from .c06 import DATAFITS
    for d in DATAFITS:
        if d.M is None:
            continue
        for sp in (False, True):
            add_task('C09', f'single_task:{d.name}.get_global_lipschitz[{"sparse" if sp else "dense"}]', global_lipschitz_task,
                     strength='B', name=d.name, sparse=sp)


_register()


def replay(args, model):
    """native: compare with the largest eigenvalue of the curvature bound on random data"""
    import importlib
    from scipy import sparse as sp
    from skglm.utils.jit_compilation import compiled_clone
    rng = np.random.RandomState(0)
    n, p = 20, 4
    X = np.asfortranarray(rng.randn(n, p))
    y = np.sign(rng.randn(n))
    sw = rng.rand(n) + 0.1
    mod = importlib.import_module('skglm.datafits.single_task')
    K = getattr(mod, args['name'])
    try:
        D = compiled_clone(K(sw) if args['name'] == 'WeightedQuadratic' else (K(1.0) if args['name'] == 'Huber' else K()))
        if args['sparse']:
            Xs = sp.csc_matrix(X)
            got = float(D.get_global_lipschitz_sparse(Xs.data, Xs.indptr, Xs.indices, y))
        else:
            got = float(D.get_global_lipschitz(X, y))
    except Exception as ex:      # noqa
        return dict(confirmed=False, detail=f'could not call: {type(ex).__name__}: {str(ex)[:200]}', inputs={})
    M = {'Quadratic': np.ones(n) / n, 'Huber': np.ones(n) / n, 'Logistic': np.ones(n) / (4 * n), 'WeightedQuadratic': sw / sw.sum(),
         'QuadraticSVC': np.ones(n)}[args['name']]
    true = float(np.linalg.eigvalsh((X * M[:, None]).T @ X)[-1])
    bad = abs(got - true) > 1e-4 * max(1., true)
    return dict(confirmed=bool(bad), detail=f'returned {got:.6g}, largest eigenvalue of sum_i M_i x_i x_i^T = {true:.6g}',
                inputs=dict(seed=0, n=n, p=p))


def cox_global_task(T, sparse):
    """Cox.get_global_lipschitz(_sparse): the REAL method on a 3 x 2 design with symbolic censoring indicators s_i >= 0 and times.
    Contract:  result * (A^T A)[j][k] == S^2 * (sum_i s_i / n) * (X^T X)[j][k]   -- the constant is (sum_i s_i / n) ||X||_2^2, and
    sum_i s_i / n bounds every entry of the diagonal curvature bound raw_hessian (obligation `raw_hessian[i]<=sum(s)/n` of
    contracts/c06b.py, n = 2, every tie / censoring pattern), which bounds the diagonal of the Hessian (c06b; full PSD dominance of diag(raw_hessian) is only an `extended`-tier query, solver-unstable, not claimed)."""
    import z3
    from pv import sym, symrun
    from pv.sproof import check_contract, zpre
    from .c06 import Env, _sum
    symrun.install()
    import skglm.datafits.single_task as mod
    e = Env(N, P)
    R, L = sym.SymReal, sym.lift
    S = z3.Real('spectral_norm_of_A')
    sv = [z3.Real(f's{i}') for i in range(N)]
    tv = [z3.Real(f'tm{i}') for i in range(N)]
    rec = {}

    def stub_norm(A, ord=None, **kw):
        rec['A'], rec['ord'] = np.array(A, dtype=object), ord
        return R(S)

    def stub_spectral(data, indptr, indices, n_samples, *a, **kw):
        A = np.zeros((int(n_samples), len(indptr) - 1), dtype=object)
        for j in range(len(indptr) - 1):
            for idx in range(indptr[j], indptr[j + 1]):
                A[indices[idx], j] = A[indices[idx], j] + data[idx]
        rec['A'], rec['ord'] = A, 2
        return R(S)
    full = [[1] * P for _ in range(N)]

    def run():
        rec.clear()
        D = mod.Cox()
        y = np.array([[R(tv[i]), R(sv[i])] for i in range(N)], dtype=object)
        saved = (mod.norm, mod.spectral_norm)
        try:
            mod.norm, mod.spectral_norm = stub_norm, stub_spectral
            out = D.get_global_lipschitz_sparse(*e.csc(full), y) if sparse else D.get_global_lipschitz(e.symX(), y)
        finally:
            mod.norm, mod.spectral_norm = saved
        return out, dict(rec)

    def post(out, p):
        res, r = out
        A = r.get('A')
        cs = [('spectral-norm-of-a-2-D-matrix-is-taken(ord=2)', [], z3.BoolVal(A is not None and A.ndim == 2 and r.get('ord') == 2))]
        if A is None or A.ndim != 2 or A.shape not in ((N, P), (P, N)):
            return cs + [('matrix-has-the-shape-of-X-or-X.T', [], z3.BoolVal(False))]
        at = (lambda i, j: L(A[i, j])) if A.shape == (N, P) else (lambda i, j: L(A[j, i]))
        for j in range(P):
            for k in range(j, P):
                G = _sum(at(i, j) * at(i, k) for i in range(N))
                cs.append((f'result*(A^T.A)[{j}][{k}]==S^2*(sum_i s_i/n)*(X^T.X)[{j}][{k}]', [],
                           L(res) * G == S * S * (_sum(sv) / N) * _sum(e.X[i][j] * e.X[i][k] for i in range(N))))
        return cs
    check_contract(T, f'Cox.get_global_lipschitz{"_sparse" if sparse else ""}', run, zpre([S >= 0] + [s_ >= 0 for s_ in sv]), post,
                   strength='B', replay=dict(fn='contracts.c09g:replay_cox_global', args=dict(sparse=sparse)))


add_task('C09', 'single_task:Cox.get_global_lipschitz[dense]', cox_global_task, strength='B', sparse=False)
add_task(['C09', 'C10'], 'single_task:Cox.get_global_lipschitz[sparse]', cox_global_task, strength='B', sparse=True)


def replay_cox_global(args, model):
    from scipy import sparse as sp
    from skglm.datafits import Cox
    from skglm.utils.jit_compilation import compiled_clone
    rng = np.random.RandomState(0)
    n, p = 20, 4
    X = np.asfortranarray(rng.randn(n, p))
    y = np.c_[rng.rand(n) + 0.1, (rng.rand(n) < 0.6).astype(float)]
    D = compiled_clone(Cox())
    try:
        if args['sparse']:
            Xs = sp.csc_matrix(X)
            got = float(D.get_global_lipschitz_sparse(Xs.data, Xs.indptr, Xs.indices, y))
        else:
            got = float(D.get_global_lipschitz(X, y))
    except Exception as ex:      # noqa
        return dict(confirmed=False, detail=f'could not call: {type(ex).__name__}: {str(ex)[:200]}', inputs={})
    true = float(y[:, 1].sum() / n * np.linalg.norm(X, ord=2) ** 2)
    return dict(confirmed=bool(abs(got - true) > 1e-4 * max(1., true)),
                detail=f'returned {got:.6g}, (sum_i s_i / n) ||X||_2^2 = {true:.6g}', inputs=dict(seed=0, n=n, p=p))


def group_lipschitz_task(T, which, sparse):
    """group-wise constants: QuadraticGroup.get_lipschitz(_sparse)[g] / LogisticGroup.initialize -> lipschitz[g] is
    factor * ||X_[:, group g]||_2^2: the matrix handed to `norm` / `spectral_norm` for group g must have the Gram matrix of the columns
    OF GROUP g (asymmetric layout grp_indices = [2, 0, 1], grp_ptr = [0, 2, 3]: groups (2, 0) and (1)), factor 1/n resp. 1/(4n)"""
    import z3
    from pv import sym, symrun
    from pv.sproof import check_contract, zpre
    from .c06 import Env, _sum
    from .c06b import GP, GI, GROUPS
    symrun.install()
    import skglm.datafits.group as mod
    K = getattr(mod, which)
    n, p = 2, 3
    e = Env(n, p)
    R, L = sym.SymReal, sym.lift
    Ss = [z3.Real(f'spectral_norm_group{g}') for g in range(len(GROUPS))]
    rec = []

    def stub_norm(A, ord=None, **kw):
        rec.append(np.array(A, dtype=object))
        return R(Ss[len(rec) - 1])

    def stub_spectral(data, indptr, indices, n_samples, *a, **kw):
        A = np.zeros((int(n_samples), len(indptr) - 1), dtype=object)
        for j in range(len(indptr) - 1):
            for idx in range(indptr[j], indptr[j + 1]):
                A[indices[idx], j] = A[indices[idx], j] + data[idx]
        rec.append(A)
        return R(Ss[len(rec) - 1])
    full = [[1] * p for _ in range(n)]
    factor = z3.RealVal(1) / n if which == 'QuadraticGroup' else z3.RealVal(1) / (4 * n)

    def run():
        del rec[:]
        D = K(GP, GI)
        saved = (mod.norm, mod.spectral_norm)
        try:
            mod.norm, mod.spectral_norm = stub_norm, stub_spectral
            if which == 'LogisticGroup':
                D.initialize(e.symX(), e.sym(e.y))
                out = D.lipschitz
            elif sparse:
                out = D.get_lipschitz_sparse(*e.csc(full), e.sym(e.y))
            else:
                out = D.get_lipschitz(e.symX(), e.sym(e.y))
        finally:
            mod.norm, mod.spectral_norm = saved
        return out, list(rec)

    def post(out, pth):
        res, mats = out
        cs = [('one-constant-per-group', [], z3.BoolVal(len(res) == len(GROUPS) and len(mats) == len(GROUPS)))]
        if len(res) != len(GROUPS) or len(mats) != len(GROUPS):
            return cs
        for g, feats in enumerate(GROUPS):
            A = mats[g]
            d = len(feats)
            if A.ndim != 2 or A.shape not in ((n, d), (d, n)):
                cs.append((f'group{g}:matrix-is-the-n_samples-x-group-size-block', [], z3.BoolVal(False)))
                continue
            col = (lambda a: [L(A[i, a]) for i in range(n)]) if A.shape == (n, d) and not (n == d and False) else \
                (lambda a: [L(A[a, i]) for i in range(n)])
            for a in range(d):
                for b in range(a, d):
                    G = _sum(x * y_ for x, y_ in zip(col(a), col(b)))
                    exp = _sum(e.X[i][feats[a]] * e.X[i][feats[b]] for i in range(n))
                    cs.append((f'group{g}:result*(A^T.A)[{a}][{b}]==S^2*factor*(X_g^T.X_g)', [],
                               L(res[g]) * G == Ss[g] * Ss[g] * factor * exp))
        return cs
    check_contract(T, f'{which}.{"initialize->lipschitz" if which == "LogisticGroup" else "get_lipschitz" + ("_sparse" if sparse else "")}',
                   run, zpre([s >= 0 for s in Ss]), post, strength='B',
                   replay=dict(fn='contracts.c09g:replay_group', args=dict(which=which, sparse=sparse)))


add_task('C09', 'group:QuadraticGroup.get_lipschitz[dense]', group_lipschitz_task, strength='B', which='QuadraticGroup', sparse=False)
add_task(['C09', 'C10'], 'group:QuadraticGroup.get_lipschitz[sparse]', group_lipschitz_task, strength='B', which='QuadraticGroup', sparse=True)
add_task('C09', 'group:LogisticGroup.initialize->lipschitz', group_lipschitz_task, strength='B', which='LogisticGroup', sparse=False)


def replay_group(args, model):
    from scipy import sparse as sp
    import skglm.datafits.group as mod
    from skglm.utils.jit_compilation import compiled_clone
    rng = np.random.RandomState(0)
    n, p = 20, 4
    X = np.asfortranarray(rng.randn(n, p) * np.array([0.5, 0.5, 10., 10.]))
    y = np.sign(rng.randn(n))
    gi, gp = np.array([2, 3, 0, 1], dtype=np.int32), np.array([0, 2, 4], dtype=np.int32)
    D = compiled_clone(getattr(mod, args['which'])(gp, gi))
    try:
        if args['which'] == 'LogisticGroup':
            D.initialize(X, y)
            got, fac = D.lipschitz, 1 / (4 * n)
        elif args['sparse']:
            Xs = sp.csc_matrix(X)
            got, fac = D.get_lipschitz_sparse(Xs.data, Xs.indptr, Xs.indices, y), 1 / n
        else:
            got, fac = D.get_lipschitz(X, y), 1 / n
    except Exception as ex:      # noqa
        return dict(confirmed=False, detail=f'could not call: {type(ex).__name__}: {str(ex)[:200]}', inputs={})
    true = np.array([np.linalg.norm(X[:, gi[gp[g]:gp[g + 1]]], ord=2) ** 2 * fac for g in range(2)])
    bad = bool(np.max(np.abs(got - true) / true) > 1e-3)
    return dict(confirmed=bad, detail=f'returned {np.round(got, 4).tolist()}, block spectral norms give {np.round(true, 4).tolist()} '
                '(groups (2,3) and (0,1), columns 2,3 scaled by 10)', inputs=dict(seed=0, n=n, p=p))

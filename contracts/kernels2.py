"""Kernel contracts (continued), front end S on the REAL kernels, shapes enumerated (bounded, B), all real values.

multitask_bcd._bcd_epoch(_sparse)    inv: XW - X W preserved; frame: rows outside ws untouched; sparse == dense     C01 C05 C10 C18
group_bcd._bcd_epoch(_sparse)        inv, frame, sparse == dense, no division by zero on an all-zero group           C01 C05 C10 C18 C19
gram_cd._gram_cd_epoch               invariant grad - G w preserved, no division by zero on a null diagonal entry     C01 C19
prox_newton._descent_direction(_s)   X_delta_w == X[:, ws] delta (+ intercept shift); sparse == dense                 C01 C10
prox_newton._backtrack_line_search(_s)  inv preserved; exit through `break` => datafit + penalty(w[:n_features]) decreased   C01 C03 C10
"""
import numpy as np

from pv.core import add_task
from .groups import GP, GI, GROUPS


def _sumz(xs):
    import z3
    xs = list(xs)
    return z3.Sum(xs) if xs else z3.RealVal(0)


class StubPenalty:
    """a penalty known only through its interface: prox_* returns fresh symbolic values and records its arguments.
    Kernel contracts (data flow: what is passed to the prox, where its result goes, how Xw follows) do not depend on
    which prox it is -- the prox contracts themselves are C07."""

    def __init__(self, grp_ptr=None, grp_indices=None):
        self.calls = []
        self.grp_ptr, self.grp_indices = grp_ptr, grp_indices

    def _fresh(self, value):
        import z3
        from pv import sym
        k = len(self.calls)
        if np.ndim(value) == 0:
            return sym.SymReal(z3.Real(f'prox{k}'))
        return np.array([sym.SymReal(z3.Real(f'prox{k}_{i}')) for i in range(len(value))], dtype=object)

    def prox_1d(self, value, stepsize, j):
        out = self._fresh(value)
        self.calls.append((value, stepsize, j, out))
        return out
    prox_1feat = prox_1group = prox_1d


def multitask_epoch_task(T, j):
    import z3
    from pv import sym, symrun
    from pv.sproof import check_contract, zpre
    from .c06 import Env, patterns
    symrun.install()
    M = 'skglm.solvers.multitask_bcd'
    dense, sparse = symrun.get(M, '_bcd_epoch'), symrun.get(M, '_bcd_epoch_sparse')
    QMT = symrun.get('skglm.datafits.multi_task', 'QuadraticMultiTask')
    L21 = symrun.get('skglm.penalties.block_separable', 'L2_1')
    n, p, t = 2, 2, 2
    e = Env(n, p)
    R = sym.SymReal
    a = z3.Real('alpha')
    Y = [[z3.Real(f'Y{i}_{k}') for k in range(t)] for i in range(n)]
    W0 = [[z3.Real(f'W{r}_{k}') for k in range(t)] for r in range(p)]
    Zr = [[z3.Real(f'Z{i}_{k}') for k in range(t)] for i in range(n)]       # arbitrary residual XW - X W
    symM = lambda M_: np.array([[R(v) for v in row] for row in M_], dtype=object)
    L = sym.lift
    pats = [None] + [pt for pt in patterns(n, p)]
    for pat in pats:
        tag = 'dense' if pat is None else 'csc=' + ''.join(str(b) for r in pat for b in r)
        Xz = [[e.Xz(pat, i, k) for k in range(p)] for i in range(n)]

        def run(pat=pat):
            X = e.symX(pat)
            W = symM(W0)
            XW = np.array([[sum((X[i, r] * W[r, k] for r in range(p)), R(z3.RealVal(0))) + R(Zr[i][k]) for k in range(t)]
                           for i in range(n)], dtype=object)
            df, pen = QMT(), StubPenalty()
            XW0 = XW.copy()
            if pat is None:
                df.initialize(X, symM(Y))
                lc = df.get_lipschitz(X, symM(Y))
                dense(X, symM(Y), W, XW, lc, df, pen, np.array([j]))
            else:
                data, indptr, indices = e.csc(pat)
                df.initialize_sparse(data, indptr, indices, symM(Y))
                lc = df.get_lipschitz_sparse(data, indptr, indices, symM(Y))
                sparse(data, indptr, indices, symM(Y), W, XW, lc, df, pen, np.array([j]))
            Lj = sum((X[i, j] * X[i, j] for i in range(n)), R(z3.RealVal(0))) / n
            gj = [sum((X[i, j] * (XW0[i, k] - R(Y[i][k])) for i in range(n)), R(z3.RealVal(0))) / n for k in range(t)]
            return W, XW, (pen.calls, Lj, gj)

        def post(out, pth):
            W, XW, (calls, Lj, gj) = out
            cs = []
            for i in range(n):
                for k in range(t):
                    cs.append((f'XW-XW-preserved[{i},{k}]', [], L(XW[i, k]) - _sumz(Xz[i][r] * L(W[r, k]) for r in range(p)) == Zr[i][k]))
            for k in range(t):
                cs.append((f'row-outside-ws-untouched[{k}]', [], L(W[1 - j, k]) == W0[1 - j][k]))
            # both kernels perform the same update (=> storage independence): either L_j == 0 and nothing happens, or the prox
            # is called once with (W_j - grad_j / L_j, 1 / L_j, j), grad_j = X_j^T (XW - Y) / n, and its result becomes W_j
            if not calls:
                cs.append(('no-update-only-if-L_j==0', [], L(Lj) == 0))
                cs += [(f'row-untouched[{k}]', [], L(W[j, k]) == W0[j][k]) for k in range(t)]
            else:
                val, step, jj, outv = calls[0]
                cs.append(('single-prox-call-on-feature-j', [], z3.BoolVal(len(calls) == 1 and int(jj) == j)))
                cs.append(('prox-step==1/L_j', [], L(step) * L(Lj) == 1))
                for k in range(t):
                    cs.append((f'prox-argument==W_j-grad_j/L_j[{k}]', [], (L(val[k]) - W0[j][k]) * L(Lj) == -L(gj[k])))
                    cs.append((f'row-is-the-prox-result[{k}]', [], L(W[j, k]) == L(outv[k])))
            return cs
        check_contract(T, f'epoch[{tag}]', run, [], post, strength='B')


for _j in (0, 1):
    add_task(['C01', 'C05', 'C10', 'C18', 'C19', 'C20'], f'multitask_bcd:_bcd_epoch(_sparse)[ws=[{_j}]]', multitask_epoch_task, strength='B', j=_j)


def group_epoch_task(T, g, positive):
    import z3
    from pv import sym, symrun
    from pv.sproof import check_contract, zpre
    from .c06 import Env
    symrun.install()
    M = 'skglm.solvers.group_bcd'
    dense, sparse = symrun.get(M, '_bcd_epoch'), symrun.get(M, '_bcd_epoch_sparse')
    QG = symrun.get('skglm.datafits.group', 'QuadraticGroup')
    n, p = 2, 3
    e = Env(n, p)
    R = sym.SymReal
    lip = [z3.Real('lip0'), z3.Real('lip1')]       # group Lipschitz constants: any non-negative numbers (0 for an all-zero group)
    L = sym.lift
    pats = [None, [[1, 1, 1], [1, 1, 1]], [[1, 0, 1], [0, 1, 1]], [[0, 1, 0], [1, 1, 1]], [[0, 0, 1], [0, 0, 1]], [[1, 1, 0], [1, 1, 0]],
            [[0, 0, 0], [0, 0, 1]]]
    pre = zpre([lip[0] >= 0, lip[1] >= 0])
    feats = GROUPS[g]
    for pat in pats:
        tag = 'dense' if pat is None else 'csc=' + ''.join(str(b) for r in pat for b in r)
        Xz = [[e.Xz(pat, i, k) for k in range(p)] for i in range(n)]

        def run(pat=pat):
            X = e.symX(pat)
            w0 = e.sym(e.w)
            w = w0.copy()
            Xw = np.array([sum((X[i, r] * w0[r] for r in range(p)), R(z3.RealVal(0))) + R(e.z[i]) for i in range(n)], dtype=object)
            Xw0 = Xw.copy()
            df, pen = QG(GP, GI), StubPenalty(GP, GI)
            lc = np.array([R(lip[0]), R(lip[1])], dtype=object)
            if pat is None:
                dense(X, e.sym(e.y), w, Xw, lc, df, pen, np.array([g]))
            else:
                data, indptr, indices = e.csc(pat)
                sparse(data, indptr, indices, e.sym(e.y), w, Xw, lc, df, pen, np.array([g]))
            gg = [sum((X[i, f] * (Xw0[i] - R(e.y[i])) for i in range(n)), R(z3.RealVal(0))) / n for f in feats]
            return w, Xw, (pen.calls, gg)

        def post(out, pth):
            w, Xw, (calls, gg) = out
            cs = [(f'Xw-Xw-preserved[{i}]', [], L(Xw[i]) - _sumz(Xz[i][r] * L(w[r]) for r in range(p)) == e.z[i]) for i in range(n)]
            for r in range(p):
                if r not in feats:
                    cs.append((f'coefficient-outside-group-untouched[{r}]', [], L(w[r]) == e.w[r]))
            if not calls:
                cs.append(('no-update-only-if-L_g==0', [], lip[g] == 0))
                cs += [(f'group-untouched[{f}]', [], L(w[f]) == e.w[f]) for f in feats]
            else:
                val, step, gi_, outv = calls[0]
                cs.append(('single-prox-call-on-group-g', [], z3.BoolVal(len(calls) == 1 and int(gi_) == g)))
                cs.append(('prox-step==1/L_g', [], L(step) * lip[g] == 1))
                for k, f in enumerate(feats):
                    cs.append((f'prox-argument==w_g-grad_g/L_g[{k}]', [], (L(val[k]) - e.w[f]) * lip[g] == -L(gg[k])))
                    cs.append((f'group-is-the-prox-result[{k}]', [], L(w[f]) == L(outv[k])))
            return cs
        check_contract(T, f'epoch[{tag}]', run, pre, post, strength='B',
                       replay=dict(fn='contracts.kernels2:replay_group_epoch', args=dict(g=g, positive=positive, pattern=pat)))


for _g in (0, 1):
    add_task(['C01', 'C05', 'C10', 'C18', 'C19', 'C20'], f'group_bcd:_bcd_epoch(_sparse)[ws=[{_g}],positive=False]', group_epoch_task,
             strength='B', g=_g, positive=False)


def replay_group_epoch(args, model):
    """native: the compiled group epoch on the model's data (zero Lipschitz constant of an all-zero group included)"""
    from fractions import Fraction
    from skglm.solvers.group_bcd import _bcd_epoch, _bcd_epoch_sparse
    from skglm.datafits import QuadraticGroup
    from skglm.penalties import WeightedGroupL2
    from skglm.utils.jit_compilation import compiled_clone
    from .c06 import _csc_from_pattern

    def fl(nm, d=0.5):
        v = model.get(nm)
        if v is None:
            return d
        try:
            return float(Fraction(v))
        except (ValueError, ZeroDivisionError):
            return float(v.rstrip('?'))
    n, p, g, pat = 2, 3, args['g'], args.get('pattern')
    X = np.array([[fl(f'X{i}_{k}') if (pat is None or pat[i][k]) else 0. for k in range(p)] for i in range(n)], order='F')
    y = np.array([fl('y0'), fl('y1')])
    w0 = np.array([fl(f'w{k}', 0.) for k in range(p)])
    z = np.array([fl('z0', 0.), fl('z1', 0.)])
    lc = np.array([fl('lip0', 1.), fl('lip1', 1.)])
    df = compiled_clone(QuadraticGroup(GP, GI))
    pen = compiled_clone(WeightedGroupL2(fl('alpha', 1.), np.array([fl('wt0', 1.), fl('wt1', 1.)]), GP, GI, args['positive']))
    w, Xw = w0.copy(), X @ w0 + z
    inputs = dict(X=X.tolist(), y=y.tolist(), w=w0.tolist(), lipschitz=lc.tolist(), g=g)
    try:
        if pat is None:
            _bcd_epoch(X, y, w, Xw, lc, df, pen, np.array([g]))
        else:
            Xs = _csc_from_pattern(X, pat)
            _bcd_epoch_sparse(Xs.data, Xs.indptr, Xs.indices, y, w, Xw, lc, df, pen, np.array([g]))
    except Exception as ex:     # noqa
        return dict(confirmed=True, detail=f'kernel raised {type(ex).__name__}: {ex}', inputs=inputs)
    bad = (not np.all(np.isfinite(w))) or np.max(np.abs((Xw - X @ w) - z)) > 1e-9 * (1 + np.max(np.abs(Xw)))
    return dict(confirmed=bool(bad), detail=f'w={w.tolist()} residual={(Xw - X @ w).tolist()} expected residual {z.tolist()}', inputs=inputs)


def gram_epoch_task(T, greedy):
    import z3
    from pv import sym, symrun
    from pv.sproof import check_contract, zpre
    symrun.install()
    kern = symrun.get('skglm.solvers.gram_cd', '_gram_cd_epoch')
    L1 = symrun.get('skglm.penalties.separable', 'L1')
    R = sym.SymReal
    p = 2
    G = [[z3.Real('G00'), z3.Real('G01')], [z3.Real('G01'), z3.Real('G11')]]
    w0 = [z3.Real('w0'), z3.Real('w1')]
    c = [z3.Real('c0'), z3.Real('c1')]          # grad = G w - c  (+ arbitrary residual r)
    r = [z3.Real('r0'), z3.Real('r1')]
    a = z3.Real('alpha')
    pre = zpre([a > 0, G[0][0] >= 0, G[1][1] >= 0, G[0][0] * G[1][1] - G[0][1] * G[0][1] >= 0])
    L = sym.lift

    def run():
        Gm = np.array([[R(v) for v in row] for row in G], dtype=object)
        w = np.array([R(v) for v in w0], dtype=object)
        grad = np.array([Gm[i, 0] * w[0] + Gm[i, 1] * w[1] - R(c[i]) + R(r[i]) for i in range(p)], dtype=object)
        pen = L1(R(a))
        opt = kern(Gm, w, grad, pen, greedy)
        # the returned scores must be those of the FINAL (w, grad) (the solver uses them as the next stopping value)
        fresh = pen.subdiff_distance(w, grad, np.arange(p))
        return w, grad, opt, fresh

    def post(out, pth):
        w, grad, opt, fresh = out
        return [(f'grad-Gw-preserved[{i}]', [], L(grad[i]) - (G[i][0] * L(w[0]) + G[i][1] * L(w[1])) == r[i] - c[i]) for i in range(p)] + \
               [(f'returned-scores-are-those-of-the-final-point[{i}]', [], L(opt[i]) == L(fresh[i])) for i in range(p)]
    check_contract(T, 'epoch', run, pre, post, strength='B',
                   replay=dict(fn='contracts.kernels2:replay_gram_epoch', args=dict(greedy=greedy)))


for _gr in (False, True):
    add_task(['C01', 'C17', 'C19', 'C20'], f'gram_cd:_gram_cd_epoch[greedy={_gr}]', gram_epoch_task, strength='B', greedy=_gr,
             tier=('thorough' if _gr else 'quick'))


def gram_epoch_stub_task(T):
    """greedy Gram epoch with a penalty known only through its interface (prox: fresh values; scores: an uninterpreted function of
    (w_j, grad_j, j)): the Gram-form gradient invariant is preserved and the returned scores are those of the FINAL point"""
    import z3
    from pv import sym, symrun
    from pv.sproof import check_contract, zpre
    symrun.install()
    kern = symrun.get('skglm.solvers.gram_cd', '_gram_cd_epoch')
    R = sym.SymReal
    p = 2
    G = [[z3.Real('G00'), z3.Real('G01')], [z3.Real('G01'), z3.Real('G11')]]
    w0 = [z3.Real('w0'), z3.Real('w1')]
    c = [z3.Real('c0'), z3.Real('c1')]
    r = [z3.Real('r0'), z3.Real('r1')]
    SC = z3.Function('SCORE_1d', z3.RealSort(), z3.RealSort(), z3.IntSort(), z3.RealSort())
    L = sym.lift

    class Pen(StubPenalty):
        def subdiff_distance(self, w, grad, ws):
            return np.array([R(SC(L(w[j]), L(grad[k]), z3.IntVal(int(j)))) for k, j in enumerate(ws)], dtype=object)

    def run():
        Gm = np.array([[R(v) for v in row] for row in G], dtype=object)
        w = np.array([R(v) for v in w0], dtype=object)
        grad = np.array([Gm[i, 0] * w[0] + Gm[i, 1] * w[1] - R(c[i]) + R(r[i]) for i in range(p)], dtype=object)
        pen = Pen()
        opt = kern(Gm, w, grad, pen, True)
        return w, grad, opt, pen.subdiff_distance(w, grad, np.arange(p))

    def post(out, pth):
        w, grad, opt, fresh = out
        return [(f'grad-Gw-preserved[{i}]', [], L(grad[i]) - (G[i][0] * L(w[0]) + G[i][1] * L(w[1])) == r[i] - c[i]) for i in range(p)] + \
               [(f'returned-scores-are-those-of-the-final-point[{i}]', [], L(opt[i]) == L(fresh[i])) for i in range(p)]
    check_contract(T, 'epoch[greedy,stub-penalty]', run, zpre([G[0][0] >= 0, G[1][1] >= 0]), post, strength='B',
                   replay=dict(fn='contracts.kernels2:replay_gram_epoch', args=dict(greedy=True)))


add_task(['C01', 'C17', 'C19', 'C20'], 'gram_cd:_gram_cd_epoch[greedy=True,stub-penalty]', gram_epoch_stub_task, strength='B')


def replay_gram_epoch(args, model):
    from fractions import Fraction
    from skglm.solvers.gram_cd import _gram_cd_epoch
    from skglm.penalties import L1
    from skglm.utils.jit_compilation import compiled_clone

    def fl(nm, d=0.5):
        v = model.get(nm)
        return float(Fraction(v)) if v is not None else d
    G = np.array([[fl('G00', 1.), fl('G01', 0.)], [fl('G01', 0.), fl('G11', 1.)]])
    w0 = np.array([fl('w0', 0.), fl('w1', 0.)])
    c = np.array([fl('c0'), fl('c1')])
    w, grad = w0.copy(), G @ w0 - c
    try:
        _gram_cd_epoch(G, w, grad, compiled_clone(L1(fl('alpha', 1.))), args['greedy'])
    except Exception as ex:     # noqa
        return dict(confirmed=True, detail=f'kernel raised {type(ex).__name__}: {ex}', inputs=dict(G=G.tolist(), w=w0.tolist(), c=c.tolist()))
    bad = (not np.all(np.isfinite(w))) or np.max(np.abs(grad - (G @ w - c))) > 1e-9 * (1 + np.max(np.abs(grad)))
    return dict(confirmed=bool(bad), detail=f'w={w.tolist()} grad={grad.tolist()} G w - c={(G @ w - c).tolist()}', inputs=dict(G=G.tolist(), w=w0.tolist(), c=c.tolist()))


def line_search_task(T, sparse, fit_intercept, weighted=False):
    """prox_newton._backtrack_line_search(_s) with a budget of 2 halvings (module constant patched for the run: bounded)"""
    import z3
    from pv import sym, symrun
    from pv.sproof import check_contract, zpre
    from .c06 import Env
    symrun.install()
    PN = symrun.get('skglm.solvers.prox_newton', '_backtrack_line_search').__globals__
    import skglm.solvers.prox_newton as pnm
    kern = pnm._backtrack_line_search_s if sparse else pnm._backtrack_line_search
    Quadratic = symrun.get('skglm.datafits.single_task', 'Quadratic')
    L1 = symrun.get('skglm.penalties.separable', 'L1')
    WL1 = symrun.get('skglm.penalties.separable', 'WeightedL1')
    from .catalog import objarr
    wts = [z3.Real('wt0'), z3.Real('wt1')]
    n, p = 1, 2            # one sample keeps every query small; the data flow does not depend on n
    e = Env(n, p)
    R = sym.SymReal
    a = z3.Real('alpha')
    b0 = z3.Real('b')                               # intercept
    dl = [z3.Real('d0'), z3.Real('d1'), z3.Real('db')]
    L = sym.lift
    pat = [[0, 1]] if sparse else None
    Xz = [[e.Xz(pat, i, k) for k in range(p)] for i in range(n)]
    fi = 1 if fit_intercept else 0

    def run():
        old = pnm.MAX_BACKTRACK_ITER
        pnm.MAX_BACKTRACK_ITER = 2
        try:
            X = e.symX(pat)
            y = e.sym(e.y)
            w0 = np.array([R(e.w[0]), R(e.w[1])] + ([R(b0)] if fi else []), dtype=object)
            w = w0.copy()
            Xw0 = np.array([X[i, 0] * w0[0] + X[i, 1] * w0[1] + (w0[2] if fi else 0.) for i in range(n)], dtype=object)
            Xw = Xw0.copy()
            if weighted:
                # a per-feature weighted penalty and a working set that is a strict subset of the features
                ws = np.array([1])
                delta = np.array([R(dl[1])] + ([R(dl[2])] if fi else []), dtype=object)
                Xd = np.array([X[i, 1] * delta[0] + (delta[1] if fi else 0.) for i in range(n)], dtype=object)
                df, pen = Quadratic(), WL1(R(a), objarr([R(wts[0]), R(wts[1])]), False)
            else:
                delta = np.array([R(dl[0]), R(dl[1])] + ([R(dl[2])] if fi else []), dtype=object)
                Xd = np.array([X[i, 0] * delta[0] + X[i, 1] * delta[1] + (delta[2] if fi else 0.) for i in range(n)], dtype=object)
                df, pen = Quadratic(), L1(R(a))
                ws = np.arange(p)
            if sparse:
                data, indptr, indices = e.csc(pat)
                kern(data, indptr, indices, y, w, Xw, fit_intercept, df, pen, delta, Xd, ws)
            else:
                kern(X, y, w, Xw, fit_intercept, df, pen, delta, Xd, ws)
            f0, f1 = df.value(y, w0[:p], Xw0), df.value(y, w[:p], Xw)
            o0 = f0 + pen.value(w0[:p])
            o1 = f1 + pen.value(w[:p])
            # <grad f(new), w_new - w_old> with the spec gradient X^T (Xw - y) / n (+ intercept coordinate)
            rg = [(Xw[i] - y[i]) / n for i in range(n)]
            lin = sum(((w[k] - w0[k]) * sum((X[i, k] * rg[i] for i in range(n)), R(z3.RealVal(0))) for k in range(p)), R(z3.RealVal(0)))
            if fi:
                lin = lin + (w[2] - w0[2]) * sum(rg, R(z3.RealVal(0)))
            return w, Xw, w0, o0, o1, (f0, f1, lin)
        finally:
            pnm.MAX_BACKTRACK_ITER = old

    def post(out, pth):
        w, Xw, w0, o0, o1, (f0, f1, lin) = out
        # convexity of the datafit (proved here for this data, then used as a lemma): f(old) >= f(new) + <grad f(new), old - new>
        convex = L(f0) >= L(f1) - L(lin)
        cs = [('lemma:datafit-convexity', [], convex)]
        cs += [(f'Xw==Xw+b[{i}]', [], L(Xw[i]) == Xz[i][0] * L(w[0]) + Xz[i][1] * L(w[1]) + (L(w[2]) if fi else 0)) for i in range(n)]
        # the only forks of this run are the acceptance tests `stop_crit < 0`: the path left through `break` iff its last
        # fork decision is True.  Exit through break => the objective decreased.  The exhaustion exit (no
        # step accepted, "TODO not handled" in the source) carries no guarantee: stated assumption, not an obligation.
        accepted = bool(pth.decisions) and bool(pth.decisions[-1])
        if accepted:
            cs.append(('accepted-step-decreases-datafit+penalty(w[:n_features])', [convex], L(o1) < L(o0)))
        return cs
    check_contract(T, 'line-search', run, zpre([a > 0, wts[0] >= 0, wts[1] >= 0]), post, strength='B', safety=False)


for _sp in (False, True):
    for _fi in (False, True):
        add_task(['C01', 'C03', 'C10', 'C20'], f'prox_newton:_backtrack_line_search{"_s" if _sp else ""}[fit_intercept={_fi}]', line_search_task,
                 strength='B', sparse=_sp, fit_intercept=_fi)
        add_task(['C03', 'C13', 'C20'], f'prox_newton:_backtrack_line_search{"_s" if _sp else ""}[fit_intercept={_fi},WeightedL1,ws=[1]]',
                 line_search_task, strength='B', sparse=_sp, fit_intercept=_fi, weighted=True)


def group_line_search_task(T, fit_intercept):
    """group_prox_newton._backtrack_line_search: every subscript inside the arrays (CPython raises IndexError where numba
    would silently read outside), Xw == X w + b preserved; 1 sample, 3 features in groups {1,0},{2}, budget 2 halvings"""
    import z3
    from pv import sym, symrun
    from pv.sproof import check_contract, zpre
    from .c06 import Env
    from .catalog import objarr
    symrun.install()
    import skglm.solvers.group_prox_newton as gm
    LG = symrun.get('skglm.datafits.group', 'LogisticGroup')
    WG = symrun.get('skglm.penalties.block_separable', 'WeightedGroupL2')
    n, p = 1, 3
    e = Env(n, p)
    R = sym.SymReal
    a = z3.Real('alpha')
    b0 = z3.Real('b')
    dl = [z3.Real(f'd{k}') for k in range(p)] + [z3.Real('db')]
    L = sym.lift
    fi = 1 if fit_intercept else 0

    def run():
        old = gm.MAX_BACKTRACK_ITER
        gm.MAX_BACKTRACK_ITER = 2
        try:
            X = e.symX()
            y = np.array([1.0], dtype=object)
            w0 = np.array([R(t) for t in e.w] + ([R(b0)] if fi else []), dtype=object)
            w = w0.copy()
            Xw = np.array([sum((X[i, k] * w0[k] for k in range(p)), R(z3.RealVal(0))) + (w0[p] if fi else 0.) for i in range(n)], dtype=object)
            ws = np.array([1, 0])
            # stacked direction in working-set order: group 1 = feature 2, group 0 = features (1, 0), then the intercept
            order = [2, 1, 0]
            delta = np.array([R(dl[k]) for k in order] + ([R(dl[p])] if fi else []), dtype=object)
            Xd = np.array([sum((X[i, k] * R(dl[k]) for k in range(p)), R(z3.RealVal(0))) + (R(dl[p]) if fi else 0.) for i in range(n)], dtype=object)
            df = LG(GP, GI)
            pen = WG(R(a), objarr([1.0, 1.0]), GP, GI, False)
            gm._backtrack_line_search(X, y, w, Xw, fit_intercept, df, pen, delta, Xd, ws)
            return w, Xw
        finally:
            gm.MAX_BACKTRACK_ITER = old

    def post(out, pth):
        w, Xw = out
        return [(f'Xw==Xw+b[{i}]', [], L(Xw[i]) == z3.Sum([e.X[i][k] * L(w[k]) for k in range(p)]) + (L(w[p]) if fi else 0)) for i in range(n)]
    check_contract(T, 'line-search', run, zpre([a > 0]), post, strength='B', safety=False,
                   replay=dict(fn='contracts.kernels2:replay_group_line_search', args=dict(fit_intercept=fit_intercept)))


for _fi in (False, True):
    add_task(['C20', 'C01'], f'group_prox_newton:_backtrack_line_search[fit_intercept={_fi}]', group_line_search_task, strength='B',
             fit_intercept=_fi)


def group_line_search_descent_task(T, fit_intercept):
    """group_prox_newton._backtrack_line_search leaves through `break` only with a smaller objective: the acceptance test
    penalty(new) - penalty(old) + step * <grad f(new), delta> < 0 implies datafit + penalty decreased BY CONVEXITY of the datafit, provided
    every gradient in the test -- the intercept's too -- is taken at the TRIAL point.  Smooth convex datafit known through its group
    interface (a quadratic loss), real WeightedGroupL2; 1 sample, groups (1,0),(2), 2 halvings (bounded)"""
    import z3
    from pv import sym, symrun
    from pv.sproof import check_contract, zpre
    from .c06 import Env
    from .catalog import objarr
    symrun.install()
    import skglm.solvers.group_prox_newton as gm
    WG = symrun.get('skglm.penalties.block_separable', 'WeightedGroupL2')
    n, p = 1, 3
    e = Env(n, p)
    R, L = sym.SymReal, sym.lift
    a, b0 = z3.Real('alpha'), z3.Real('b')
    dl = [z3.Real(f'd{k}') for k in range(p)] + [z3.Real('db')]
    fi = 1 if fit_intercept else 0
    zero = lambda: R(z3.RealVal(0))

    class QuadGroup:
        """f(Xw) = ||Xw - y||^2 / (2 n) through the group-datafit interface"""
        grp_ptr, grp_indices = GP, GI

        def value(self, y, w, Xw):
            return sum(((Xw[i] - y[i]) * (Xw[i] - y[i]) for i in range(n)), zero()) / (2 * n)

        def raw_grad(self, y, Xw):
            return np.array([(Xw[i] - y[i]) / n for i in range(n)], dtype=object)

        def gradient_g(self, X, y, w, Xw, g):
            rg = self.raw_grad(y, Xw)
            return np.array([sum((X[i, j] * rg[i] for i in range(n)), zero()) for j in GROUPS[int(g)]], dtype=object)

    PENV = z3.Function('PENALTY_VALUE', z3.RealSort(), z3.RealSort(), z3.RealSort(), z3.RealSort())

    class Pen:
        """a group penalty known through its interface: value(w[:n_features]) is a function of the coefficients (the acceptance
        argument needs nothing else from it)"""
        grp_ptr, grp_indices = GP, GI

        def value(self, w):
            assert len(w) == p, 'the penalty is evaluated on the feature coefficients only'
            return R(PENV(*[L(t) for t in w]))

    def run():
        old = gm.MAX_BACKTRACK_ITER
        gm.MAX_BACKTRACK_ITER = 2
        try:
            X, y = e.symX(), e.sym(e.y)
            w0 = np.array([R(t) for t in e.w] + ([R(b0)] if fi else []), dtype=object)
            w = w0.copy()
            Xw0 = np.array([sum((X[i, k] * w0[k] for k in range(p)), zero()) + (w0[p] if fi else 0.) for i in range(n)], dtype=object)
            Xw = Xw0.copy()
            ws = np.array([1, 0])
            order = [2, 1, 0]
            delta = np.array([R(dl[k]) for k in order] + ([R(dl[p])] if fi else []), dtype=object)
            Xd = np.array([sum((X[i, k] * R(dl[k]) for k in range(p)), zero()) + (R(dl[p]) if fi else 0.) for i in range(n)], dtype=object)
            df = QuadGroup()
            pen = Pen()
            gm._backtrack_line_search(X, y, w, Xw, fit_intercept, df, pen, delta, Xd, ws)
            f0, f1 = df.value(y, w0, Xw0), df.value(y, w, Xw)
            o0, o1 = f0 + pen.value(w0[:p]), f1 + pen.value(w[:p])
            rg = df.raw_grad(y, Xw)
            lin = sum(((w[k] - w0[k]) * sum((X[i, k] * rg[i] for i in range(n)), zero()) for k in range(p)), zero())
            if fi:
                lin = lin + (w[p] - w0[p]) * sum(rg, zero())
            return o0, o1, f0, f1, lin
        finally:
            gm.MAX_BACKTRACK_ITER = old

    def post(out, pth):
        o0, o1, f0, f1, lin = out
        convex = L(f0) >= L(f1) - L(lin)
        # the convexity lemma is a polynomial identity of this datafit: proved WITHOUT the path condition (which mentions the
        # uninterpreted penalty value and would only slow the arithmetic solver down)
        nlemma[0] += 1
        T.prove(f'line-search-descent/lemma:datafit-convexity@p{nlemma[0]}', [], convex, strength='B')
        cs = []
        if bool(pth.decisions) and bool(pth.decisions[-1]):
            cs.append(('accepted-step-decreases-datafit+penalty(w[:n_features])', [convex], L(o1) < L(o0)))
        return cs
    nlemma = [0]
    check_contract(T, 'line-search-descent', run, zpre([a > 0]), post, strength='B', safety=False)


for _fi in (False, True):
    add_task(['C03', 'C01'], f'group_prox_newton:_backtrack_line_search[fit_intercept={_fi}]/descent', group_line_search_descent_task,
             strength='B', fit_intercept=_fi)


def replay_group_line_search(args, model):
    """native, with numba's own bounds checking switched on in a fresh interpreter"""
    import subprocess
    import sys
    code = '''
import numpy as np
from skglm.solvers.group_prox_newton import _backtrack_line_search
from skglm.datafits import LogisticGroup
from skglm.penalties import WeightedGroupL2
from skglm.utils.jit_compilation import compiled_clone
gp = np.array([0, 2, 3], dtype=np.int32); gi = np.array([1, 0, 2], dtype=np.int32)
fi = %r
rng = np.random.RandomState(0)
X = np.asfortranarray(rng.randn(4, 3)); y = np.sign(rng.randn(4)); w = rng.randn(3 + fi); Xw = X @ w[:3] + (w[3] if fi else 0.)
delta = rng.randn(3 + fi); Xd = X[:, [2, 1, 0]] @ delta[:3] + (delta[3] if fi else 0.)
_backtrack_line_search(X, y, w, Xw, fi, compiled_clone(LogisticGroup(gp, gi)), compiled_clone(WeightedGroupL2(0.1, np.ones(2), gp, gi)),
                       delta, Xd, np.array([1, 0]))
print("ok")
''' % bool(args['fit_intercept'])
    import os
    env = dict(os.environ, NUMBA_BOUNDSCHECK='1')
    env.pop('NUMBA_DISABLE_JIT', None)
    p = subprocess.run([sys.executable, '-c', code], capture_output=True, text=True, env=env, timeout=600)
    bad = 'IndexError' in p.stderr or p.returncode != 0
    return dict(confirmed=bool(bad), detail=(p.stderr[-400:] if bad else 'completed under NUMBA_BOUNDSCHECK=1'), inputs=args)


def fixpoint_dist_task(T, kind):
    """solvers.common.dist_fix_point_cd / dist_fix_point_bcd on a working set smaller than the index range (ws = [1]):
    out[idx] == |w_j - prox(w_j - grad_idx / L_idx, 1 / L_idx, j)| (norm for groups), L_idx == 0 => 0; arrays indexed by POSITION
    in the working set (lipschitz_ws, grad_ws) are never indexed by the feature / group id"""
    import z3
    from pv import sym, symrun
    from pv.sproof import check_contract, zpre
    symrun.install()
    C = 'skglm.solvers.common'
    R = sym.SymReal
    L = sym.lift
    lip = z3.Real('lip')
    if kind == 'cd':
        fn = symrun.get(C, 'dist_fix_point_cd')
        w = [z3.Real(f'w{k}') for k in range(3)]
        g = z3.Real('g')

        def run():
            pen = StubPenalty()
            out = fn(np.array([R(t) for t in w], dtype=object), np.array([R(g)], dtype=object), np.array([R(lip)], dtype=object),
                     None, pen, np.array([2]))
            return out, pen.calls

        def post(out, pth):
            o, calls = out
            if not calls:
                return [('zero-curvature=>0', [], z3.And(lip == 0, L(o[0]) == 0))]
            val, step, j, res = calls[0]
            d = w[2] - L(res)
            return [('prox-called-on-(w_j-g/L,1/L,j)', [], z3.And(z3.BoolVal(int(j) == 2), L(step) * lip == 1, (L(val) - w[2]) * lip == -g)),
                    ('==|w_j-prox|', [], L(o[0]) == z3.If(d >= 0, d, -d)), ('length', [], z3.BoolVal(len(o) == 1))]
        check_contract(T, 'dist_fix_point_cd', run, zpre([lip >= 0]), post, strength='B')
    else:
        fn = symrun.get(C, 'dist_fix_point_bcd')
        w = [z3.Real(f'w{k}') for k in range(3)]
        gg = [z3.Real('g0')]                      # ws = [1]: group 1 = feature {2}

        def run():
            pen = StubPenalty(GP, GI)
            out = fn(np.array([R(t) for t in w], dtype=object), np.array([R(t) for t in gg], dtype=object),
                     np.array([R(lip)], dtype=object), None, pen, np.array([1]))
            return out, pen.calls

        def post(out, pth):
            o, calls = out
            if not calls:
                return [('zero-curvature=>0', [], z3.And(lip == 0, L(o[0]) == 0))]
            val, step, gidx, res = calls[0]
            d = w[2] - L(res[0])
            return [('prox-called-on-(w_g-g/L,1/L,g)', [], z3.And(z3.BoolVal(int(gidx) == 1), L(step) * lip == 1, (L(val[0]) - w[2]) * lip == -gg[0])),
                    ('==||w_g-prox||', [], z3.And(L(o[0]) >= 0, L(o[0]) * L(o[0]) == d * d))]
        check_contract(T, 'dist_fix_point_bcd', run, zpre([lip >= 0]), post, strength='B')


for _k in ('cd', 'bcd'):
    add_task(['C01', 'C08', 'C20'], f'common:dist_fix_point_{_k}[ws=[last]]', fixpoint_dist_task, strength='B', kind=_k)


def fixpoint_dist_zero_group_task(T):
    """dist_fix_point_bcd on the whole working set [0, 1] when group 0 has zero curvature (all-zero columns): group 1 is still scored
    with ITS OWN block of the stacked gradient (position 2 of grad_ws: group 0 = features (2, 0) takes positions 0, 1)"""
    import z3
    from pv import sym, symrun
    from pv.sproof import check_contract, zpre
    symrun.install()
    fn = symrun.get('skglm.solvers.common', 'dist_fix_point_bcd')
    R, L = sym.SymReal, sym.lift
    w = [z3.Real(f'w{k}') for k in range(3)]
    g = [z3.Real(f'g{k}') for k in range(3)]          # stacked: (group 0: 2 entries) + (group 1: 1 entry)
    lip = z3.Real('lip1')

    def run():
        pen = StubPenalty(GP, GI)
        out = fn(np.array([R(t) for t in w], dtype=object), np.array([R(t) for t in g], dtype=object),
                 np.array([0.0, R(lip)], dtype=object), None, pen, np.array([0, 1]))
        return out, pen.calls

    def post(out, pth):
        o, calls = out
        cs = [('zero-curvature-group-scores-0', [], L(o[0]) == 0), ('one-prox-call(for-group-1)', [], z3.BoolVal(len(calls) == 1))]
        if len(calls) == 1:
            val, step, gidx, res = calls[0]
            feat = int(GROUPS[1][0])
            cs.append(('group-1-uses-its-own-gradient-block', [], z3.And(z3.BoolVal(int(gidx) == 1), L(step) * lip == 1,
                                                                     (L(val[0]) - w[feat]) * lip == -g[2])))
        return cs
    check_contract(T, 'dist_fix_point_bcd[zero-curvature-group-first]', run, zpre([lip > 0]), post, strength='B',
                   replay=dict(fn='contracts.kernels2:replay_fixpoint_zero_group', args={}))


add_task(['C08', 'C19', 'C01'], 'common:dist_fix_point_bcd[ws=[0,1],group-0-has-zero-curvature]', fixpoint_dist_zero_group_task, strength='B')


def replay_fixpoint_zero_group(args, model):
    from skglm.solvers.common import dist_fix_point_bcd
    from skglm.penalties import WeightedGroupL2
    from skglm.datafits import QuadraticGroup
    from skglm.utils.jit_compilation import compiled_clone
    gp, gi = np.array([0, 2, 3], dtype=np.int32), np.array([0, 1, 2], dtype=np.int32)
    pen = compiled_clone(WeightedGroupL2(0.1, np.ones(2), gp, gi))
    w = np.array([0., 0., 1.])
    grad = np.array([5., -7., 0.3])
    lips = np.array([0., 2.])
    got = dist_fix_point_bcd(w, grad, lips, compiled_clone(QuadraticGroup(gp, gi)), pen, np.array([0, 1]))
    exp = abs(1. - pen.prox_1group(np.array([1. - 0.3 / 2.]), 0.5, 1)[0])
    bad = abs(got[1] - exp) > 1e-12
    return dict(confirmed=bool(bad), detail=f'score of group 1 = {got[1]:.6g}, expected {exp:.6g} (its gradient block is 0.3; the blocks of '
                'the zero-curvature group 0 are 5, -7)', inputs=dict(w=w.tolist(), grad_ws=grad.tolist(), lipschitz_ws=lips.tolist()))


def descent_direction_task(T, sparse, fit_intercept):
    """prox_newton._descent_direction(_s) (one inner CD pass: module constant MAX_CD_ITER patched to 1, bounded):
    X_delta_w_ws == X[:, ws] @ delta_w_ws[:len(ws)] (+ delta intercept), no division by zero on a column whose curvature is 0
    (structurally empty OR stored zeros), lipschitz_ws[idx] == sum_i raw_hess_i X_ij^2"""
    import z3
    from pv import sym, symrun
    from pv.sproof import check_contract, zpre
    from .c06 import Env
    symrun.install()
    import skglm.solvers.prox_newton as pnm
    kern = pnm._descent_direction_s if sparse else pnm._descent_direction
    Quadratic = symrun.get('skglm.datafits.single_task', 'Quadratic')
    n, p = 2, 2
    e = Env(n, p)
    R = sym.SymReal
    L = sym.lift
    b0 = z3.Real('b')
    gws = [z3.Real('gw0'), z3.Real('gw1')]
    fi = 1 if fit_intercept else 0
    pats = [[[1, 1], [1, 1]], [[1, 1], [0, 1]], [[0, 1], [0, 1]]] if sparse else [None]

    class Pen(StubPenalty):
        def subdiff_distance(self, w, grad, ws):
            return np.array([R(z3.Real(f'score{k}')) for k in range(len(ws))], dtype=object)
    for pat in pats:
        tag = 'dense' if pat is None else 'csc=' + ''.join(str(b) for r in pat for b in r)
        Xz = [[e.Xz(pat, i, k) for k in range(p)] for i in range(n)]

        def run(pat=pat):
            old = pnm.MAX_CD_ITER
            pnm.MAX_CD_ITER = 1
            try:
                X = e.symX(pat)
                y = e.sym(e.y)
                w = np.array([R(e.w[0]), R(e.w[1])] + ([R(b0)] if fi else []), dtype=object)
                Xw = np.array([X[i, 0] * w[0] + X[i, 1] * w[1] + (w[2] if fi else 0.) for i in range(n)], dtype=object)
                grad_ws = np.array([R(t) for t in gws], dtype=object)
                ws = np.arange(p)
                pen = Pen()
                if sparse:
                    data, indptr, indices = e.csc(pat)
                    out = kern(data, indptr, indices, y, w, Xw, fit_intercept, grad_ws, Quadratic(), pen, ws, R(z3.Real('tol')), 'subdiff')
                else:
                    out = kern(X, y, w, Xw, fit_intercept, grad_ws, Quadratic(), pen, ws, R(z3.Real('tol')), 'subdiff')
                return out
            finally:
                pnm.MAX_CD_ITER = old

        def post(out, pth):
            delta, Xd, lips = out
            cs = []
            for i in range(n):
                cs.append((f'X_delta[{i}]==X.delta(+intercept)', [],
                           L(Xd[i]) == Xz[i][0] * L(delta[0]) + Xz[i][1] * L(delta[1]) + (L(delta[2]) if fi else 0)))
            for j in range(p):
                cs.append((f'lipschitz_ws[{j}]==sum_i hess_i X_ij^2', [], L(lips[j]) == z3.Sum([Xz[i][j] * Xz[i][j] for i in range(n)]) / n))
            return cs
        check_contract(T, f'direction[{tag}]', run, [], post, strength='B')


for _sp in (False, True):
    for _fi in (False, True):
        add_task(['C01', 'C10', 'C19', 'C20'], f'prox_newton:_descent_direction{"_s" if _sp else ""}[fit_intercept={_fi}]', descent_direction_task,
                 strength='B', sparse=_sp, fit_intercept=_fi)

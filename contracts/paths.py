"""AndersonCD.path / MultiTaskBCD.path under contract (C05, C18): the REAL path() is executed (front end S, symbolic 2x2 design) with
`self.solve` replaced by a stub carrying solve()'s own contract (C01/C05 of `_solve`): it REQUIRES nothing, records the (w, Xw) it is
handed and the current penalty.alpha, then overwrites w IN PLACE with fresh symbolic coefficients and Xw IN PLACE with their consistent
fit (that is what `_solve` ensures on the caller's buffers), returning (w, history, stop).

  C05   at EVERY call of solve -- first grid point from w_init (with a support, with an empty generalized support but a non-zero
        intercept / coefficients outside the generalized support, or None) and every later grid point from the previous solution --
        the pair handed over is consistent:  Xw == X w[:n_features] + fit_intercept * w[-1] ; penalty.alpha is the grid value ;
        column t of the returned coefficients is solve's output for alphas[t], stop_crits[t] its stopping value, for any grid order
  C18   the caller's w_init / coef_init and alphas are not written
Bounded: 2x2 design (2 tasks for the multitask solver), 2 grid points; all real values.
"""
import numpy as np

from pv.core import add_task

N, P = 2, 2


def _common():
    import z3
    from pv import sym, symrun
    symrun.install()
    return z3, sym, symrun


def anderson_path_task(T, fit_intercept, init):
    z3, sym, symrun = _common()
    from pv.sproof import check_contract, zpre
    import skglm.solvers.anderson_cd as M
    R, L = sym.SymReal, sym.lift
    X = [[z3.Real(f'X{i}_{j}') for j in range(P)] for i in range(N)]
    yv = [z3.Real(f'y{i}') for i in range(N)]
    al = [z3.Real('alpha0'), z3.Real('alpha1')]
    nw = P + int(fit_intercept)
    w0 = [z3.Real(f'winit{j}') for j in range(nw)]
    calls = []

    class Penalty:
        alpha = None

        def generalized_support(self, w):
            # 'empty-support': every coefficient is outside the generalized support (e.g. at the bound of a box, or only the
            # intercept is non-zero) although w_init is not the zero vector
            return np.zeros(len(w), dtype=bool) if init == 'empty-support' else np.ones(len(w), dtype=bool)

    class Datafit:
        def initialize(self, X_, y_):
            pass

    def fit(w):
        return [sum((X[i][j] * w[j] for j in range(P)), z3.RealVal(0)) + (w[-1] if fit_intercept else 0) for i in range(N)]

    def run():
        del calls[:]
        Xs = np.array([[R(t) for t in row] for row in X], dtype=object)
        ys = np.array([R(t) for t in yv], dtype=object)
        pen = Penalty()
        solver = M.AndersonCD(fit_intercept=fit_intercept)

        def solve(X_, y_, datafit, penalty, w, Xw):
            k = len(calls)
            calls.append(dict(w=[L(v) for v in w], Xw=[L(v) for v in Xw], alpha=penalty.alpha, w_obj=w, Xw_obj=Xw))
            new = [z3.Real(f'sol{k}_{j}') for j in range(nw)]
            for j in range(nw):
                w[j] = R(new[j])
            f = fit(new)
            for i in range(N):
                Xw[i] = R(f[i])
            return w, np.zeros(3), R(z3.Real(f'stop{k}'))
        solver.solve = solve
        wi = None if init == 'none' else np.array([R(t) for t in w0], dtype=object)
        wi0 = None if wi is None else wi.copy()
        alphas = np.array([R(t) for t in al], dtype=object)
        saved = M.check_array
        try:
            M.check_array = lambda a, *args, **k: a
            out = solver.path(Xs, ys, Datafit(), pen, alphas=alphas, w_init=wi)
        finally:
            M.check_array = saved
        untouched = wi is None or all(wi[j] is wi0[j] for j in range(nw))
        return out, list(calls), untouched

    def post(out, p):
        (alphas, coefs, stops), cl, untouched = out
        cs = [('solve-called-once-per-grid-point', [], z3.BoolVal(len(cl) == 2))]
        if len(cl) != 2:
            return cs
        for t, c in enumerate(cl):
            f = fit(c['w'])
            cs.append((f'grid-point-{t}:start-is-consistent:Xw==X.w[:n_features]+fit_intercept*w[-1]', [],
                       z3.And(*[c['Xw'][i] == f[i] for i in range(N)])))
            cs.append((f'grid-point-{t}:penalty.alpha==alphas[{t}]', [], L(c['alpha']) == al[t] if c['alpha'] is not None else z3.BoolVal(False)))
            exp = (w0 if init != 'none' else [z3.RealVal(0)] * nw) if t == 0 else [z3.Real(f'sol{t - 1}_{j}') for j in range(nw)]
            cs.append((f'grid-point-{t}:starts-from-{"w_init" if t == 0 else "the-previous-solution"}', [],
                       z3.And(*[c['w'][j] == exp[j] for j in range(nw)])))
            cs.append((f'coefs[:,{t}]==solution-for-alphas[{t}]', [],
                       z3.And(*[L(coefs[j, t]) == z3.Real(f'sol{t}_{j}') for j in range(nw)])))
            cs.append((f'stop_crits[{t}]==stopping-value-for-alphas[{t}]', [], L(stops[t]) == z3.Real(f'stop{t}')))
        cs.append(('callers-w_init-is-not-written', [], z3.BoolVal(bool(untouched))))
        return cs
    check_contract(T, f'AndersonCD.path[fit_intercept={fit_intercept},w_init={init}]', run, zpre([]), post, strength='B', safety=False,
                   replay=dict(fn='contracts.paths:replay_anderson', args=dict(fit_intercept=fit_intercept)))


for _fi in (False, True):
    for _init in ('none', 'support', 'empty-support'):
        add_task(['C02', 'C05', 'C18'], f'solvers:AndersonCD.path[fi={int(_fi)},w_init={_init}]', anderson_path_task, strength='B',
                 fit_intercept=_fi, init=_init)


def multitask_path_task(T, fit_intercept, init):
    z3, sym, symrun = _common()
    from pv.sproof import check_contract, zpre
    import skglm.solvers.multitask_bcd as M
    R, L = sym.SymReal, sym.lift
    TK = 2
    X = [[z3.Real(f'X{i}_{j}') for j in range(P)] for i in range(N)]
    al = [z3.Real('alpha0'), z3.Real('alpha1')]
    rows = P + int(fit_intercept)
    W0 = [[z3.Real(f'Winit{k}_{r}') for r in range(rows)] for k in range(TK)]          # W_init is (n_tasks, n_features + fit_intercept)
    calls = []

    class Penalty:
        alpha = None

    class Datafit:
        def initialize(self, X_, Y_):
            pass

    def fit(Wt):           # Wt[r][k]
        return [[sum((X[i][j] * Wt[j][k] for j in range(P)), z3.RealVal(0)) + (Wt[-1][k] if fit_intercept else 0) for k in range(TK)]
                for i in range(N)]

    def run():
        del calls[:]
        Xs = np.array([[R(t) for t in row] for row in X], dtype=object)
        Ys = np.array([[R(z3.Real(f'Y{i}_{k}')) for k in range(TK)] for i in range(N)], dtype=object)
        pen = Penalty()
        solver = M.MultiTaskBCD(fit_intercept=fit_intercept)

        def solve(X_, Y_, datafit, penalty, W, XW):
            k = len(calls)
            calls.append(dict(W=[[L(W[r, c]) for c in range(TK)] for r in range(W.shape[0])],
                              XW=[[L(XW[i, c]) for c in range(TK)] for i in range(N)], alpha=penalty.alpha, shape=W.shape))
            new = [[z3.Real(f'sol{k}_{r}_{c}') for c in range(TK)] for r in range(rows)]
            for r in range(min(rows, W.shape[0])):
                for c in range(TK):
                    W[r, c] = R(new[r][c])
            f = fit(new)
            for i in range(N):
                for c in range(TK):
                    XW[i, c] = R(f[i][c])
            return W, np.zeros(3), R(z3.Real(f'stop{k}'))
        solver.solve = solve
        Wi = None if init == 'none' else np.array([[R(t) for t in row] for row in W0], dtype=object)
        Wi0 = None if Wi is None else Wi.copy()
        alphas = np.array([R(t) for t in al], dtype=object)
        saved = (M.check_array, M.np)

        class NP:
            def __getattr__(self, name):
                return getattr(saved[1], name)

            @staticmethod
            def where(cond, *a, **k):
                return np.where(np.array([bool(c) for c in np.asarray(cond, dtype=object).ravel()]).reshape(np.shape(cond)), *a, **k)
        try:
            M.check_array = lambda a, *args, **k: a
            M.np = NP()
            out = solver.path(Xs, Ys, Datafit(), pen, alphas=alphas, W_init=Wi)
        finally:
            M.check_array, M.np = saved
        untouched = Wi is None or all(Wi[k, r] is Wi0[k, r] for k in range(TK) for r in range(rows))
        return out, list(calls), untouched

    def post(out, p):
        (alphas, coefs, stops), cl, untouched = out
        cs = [('solve-called-once-per-grid-point', [], z3.BoolVal(len(cl) == 2))]
        if len(cl) != 2:
            return cs
        for t, c in enumerate(cl):
            if c['shape'] != (rows, TK):
                cs.append((f'grid-point-{t}:W-has-shape-(n_features+fit_intercept,n_tasks)', [], z3.BoolVal(False)))
                continue
            f = fit(c['W'])
            cs.append((f'grid-point-{t}:start-is-consistent:XW==X.W[:n_features]+W[-1]', [],
                       z3.And(*[c['XW'][i][k] == f[i][k] for i in range(N) for k in range(TK)])))
            cs.append((f'grid-point-{t}:penalty.alpha==alphas[{t}]', [], L(c['alpha']) == al[t] if c['alpha'] is not None else z3.BoolVal(False)))
            if t == 0:
                exp = [[(W0[k][r] if init != 'none' else z3.RealVal(0)) for k in range(TK)] for r in range(rows)]
            else:
                exp = [[z3.Real(f'sol{t - 1}_{r}_{k}') for k in range(TK)] for r in range(rows)]
            cs.append((f'grid-point-{t}:starts-from-{"W_init.T" if t == 0 else "the-previous-solution"}', [],
                       z3.And(*[c['W'][r][k] == exp[r][k] for r in range(rows) for k in range(TK)])))
        cs.append(('callers-W_init-is-not-written', [], z3.BoolVal(bool(untouched))))
        return cs
    check_contract(T, f'MultiTaskBCD.path[fit_intercept={fit_intercept},W_init={init}]', run, zpre([]), post, strength='B', safety=False,
                   replay=dict(fn='contracts.paths:replay_multitask', args=dict(fit_intercept=fit_intercept)))


for _fi in (False, True):
    for _init in ('none', 'given'):
        add_task(['C02', 'C05', 'C18'], f'solvers:MultiTaskBCD.path[fi={int(_fi)},W_init={_init}]', multitask_path_task, strength='B',
                 fit_intercept=_fi, init=_init)


def replay_anderson(args, model):
    import warnings
    from skglm.solvers import AndersonCD
    from skglm.datafits import Quadratic
    from skglm.penalties import L1
    from skglm.utils.jit_compilation import compiled_clone
    rng = np.random.RandomState(0)
    X = np.asfortranarray(rng.randn(30, 5))
    y = X @ np.array([1., -2, 0, 0, 0]) + 3. + .1 * rng.randn(30)
    fi = bool(args['fit_intercept'])
    w0 = np.zeros(5 + fi)
    if fi:
        w0[-1] = 2.0
    w0c = w0.copy()
    with warnings.catch_warnings():
        warnings.simplefilter('ignore')
        _, coefs, stops = AndersonCD(tol=1e-10, fit_intercept=fi).path(X, y, compiled_clone(Quadratic()), compiled_clone(L1(0.1)),
                                                                     alphas=np.array([0.1]), w_init=w0)
        ref = AndersonCD(tol=1e-10, fit_intercept=fi).solve(X, y, compiled_clone(Quadratic()), compiled_clone(L1(0.1)))[0]
    d = float(np.max(np.abs(coefs[:, 0] - ref)))
    if d > 1e-6 or not np.array_equal(w0, w0c):
        return dict(confirmed=True, detail=f'path from w_init = (0,...,0, intercept 2.0) returns a solution differing from the cold solve by '
                    f'{d:.3g} with stop_crit {stops[0]:.3g}; w_init written: {not np.array_equal(w0, w0c)}', inputs=dict(seed=0, fit_intercept=fi))
    return dict(confirmed=False, detail='native scenario passes', inputs={})


def replay_multitask(args, model):
    import warnings
    from skglm.solvers import MultiTaskBCD
    from skglm.datafits import QuadraticMultiTask
    from skglm.penalties import L2_1
    from skglm.utils.jit_compilation import compiled_clone
    rng = np.random.RandomState(0)
    fi = bool(args['fit_intercept'])
    X = np.asfortranarray(rng.randn(20, 5))
    Y = np.asfortranarray(rng.randn(20, 3) + 2.)
    W0 = np.asfortranarray(rng.randn(3, 5 + fi))
    W0c = W0.copy()
    with warnings.catch_warnings():
        warnings.simplefilter('ignore')
        try:
            _, coefs, stops = MultiTaskBCD(tol=1e-10, fit_intercept=fi).path(X, Y, compiled_clone(QuadraticMultiTask()), compiled_clone(L2_1(0.1)),
                                                                            alphas=np.array([0.1]), W_init=W0)
            ref = MultiTaskBCD(tol=1e-10, fit_intercept=fi).solve(X, Y, compiled_clone(QuadraticMultiTask()), compiled_clone(L2_1(0.1)))[0]
        except Exception as ex:      # noqa
            return dict(confirmed=True, detail=f'path(W_init=...) raised {type(ex).__name__}: {str(ex)[:160]}', inputs=dict(seed=0, fit_intercept=fi))
    d = float(np.max(np.abs(coefs[:, :, 0] - ref.T)))
    if d > 1e-6 or not np.array_equal(W0, W0c):
        return dict(confirmed=True, detail=f'path from W_init differs from the cold solve by {d:.3g} (stop_crit {stops[0]:.3g}); '
                    f'W_init written: {not np.array_equal(W0, W0c)}', inputs=dict(seed=0, fit_intercept=fi))
    return dict(confirmed=False, detail='native scenario passes', inputs={})


def sqrt_lasso_path_task(T):
    """SqrtLasso.path (experimental) with the ProxNewton solver replaced by a contract-carrying stub (records its arguments, overwrites
    w_init IN PLACE with a fresh solution and returns it, as the real solver does): every solve gets a consistent (w_init, Xw_init) and the
    grid value of alpha (grid sorted decreasingly, whatever order was passed); row i of the returned coefficients is -- after ALL solves --
    the solution for alphas[i] (no later solve may overwrite it); serves C05 and C11 (fit() is path() with the single alpha)"""
    z3, sym, symrun = _common()
    from pv.sproof import check_contract, zpre
    import skglm.experimental.sqrt_lasso as M
    R, L = sym.SymReal, sym.lift
    X = [[z3.Real(f'X{i}_{j}') for j in range(P)] for i in range(N)]
    calls = []

    class Solver:
        def __init__(self, **kw):
            self.kw = kw

        def solve(self, X_, y_, datafit, penalty, w_init=None, Xw_init=None):
            k = len(calls)
            calls.append(dict(w=[L(v) for v in w_init], Xw=[L(v) for v in Xw_init], alpha=penalty.alpha))
            for j in range(P):
                w_init[j] = R(z3.Real(f'sol{k}_{j}'))
            return w_init, np.zeros(2), R(z3.Real(f'stop{k}'))

    class Obj:
        alpha = None

    def run():
        del calls[:]
        Xs = np.array([[R(t) for t in row] for row in X], dtype=object)
        ys = np.array([R(z3.Real(f'y{i}')) for i in range(N)], dtype=object)
        saved = (M.ProxNewton, M.compiled_clone)

        class NP:
            def __getattr__(self, name):
                return getattr(saved_np, name)

            @staticmethod
            def zeros(shape, *a, **k):
                return np.zeros(shape, dtype=object)
        saved_np = M.np
        try:
            M.ProxNewton, M.compiled_clone, M.np = Solver, (lambda o, *a, **k: Obj()), NP()
            est = M.SqrtLasso(alpha=0.3)
            out = est.path(Xs, ys, alphas=[0.1, 0.5, 0.2])
        finally:
            M.ProxNewton, M.compiled_clone = saved
            M.np = saved_np
        return out, list(calls)

    def post(out, p):
        (alphas, coefs), cl = out
        cs = [('one-solve-per-grid-point', [], z3.BoolVal(len(cl) == 3)),
              ('grid-sorted-decreasingly', [], z3.BoolVal([float(a) for a in alphas] == [0.5, 0.2, 0.1]))]
        if len(cl) != 3:
            return cs
        for t, c in enumerate(cl):
            f = [sum((X[i][j] * c['w'][j] for j in range(P)), z3.RealVal(0)) for i in range(N)]
            cs.append((f'grid-point-{t}:start-is-consistent:Xw_init==X.w_init', [], z3.And(*[c['Xw'][i] == f[i] for i in range(N)])))
            cs.append((f'grid-point-{t}:penalty.alpha==alphas[{t}]', [], z3.BoolVal(c['alpha'] is not None and float(c['alpha']) == float(alphas[t]))))
            cs.append((f'coefs[{t}]==solution-for-alphas[{t}](after-all-solves)', [],
                       z3.And(*[L(coefs[t, j]) == z3.Real(f'sol{t}_{j}') for j in range(P)])))
        return cs
    check_contract(T, 'SqrtLasso.path', run, zpre([]), post, strength='B', safety=False)


add_task(['C05', 'C11'], 'experimental:SqrtLasso.path', sqrt_lasso_path_task, strength='B')

"""MultiTaskBCD._solve under contract (C01, C05, C17, C03): the REAL method -- with its real epoch kernel `_bcd_epoch` -- is executed
(front end S) on a symbolic 2 samples x 1 feature (2 features: thorough tier) x 2 tasks problem for up to 2 outer iterations of 1 epoch, with a datafit and a
penalty known only through their interfaces (uninterpreted functions of their arguments; every call is recorded):

  C05 / C01   Inv: on every return path  XW == X W[:n_features] + W[-1] (if fit_intercept)  for a cold start and for an arbitrary
              consistent warm start (W_init, XW_init); the returned W is the caller's W_init (in place)
  C01         if the returned stopping value is <= tol: the last score evaluation was AT the returned W with the gradient AT the
              returned XW, the stopping value dominates every score and -- with fit_intercept -- the optimality of the intercept
              (|intercept_update_step| of every task)
  C17         the history has one entry per outer iteration performed; its last entry is
              datafit.value(Y, ., XW) + penalty.value(W[:n_features]) of the RETURNED point (intercept row not penalised)
Bounded: shapes and budgets above; all real values.  The Anderson step of this solver (inline, needs 6 epochs) is outside the bound:
its acceptance test is covered by the AST obligation `anderson-compares-the-true-objective` below (C03).
"""
import ast
import os

import numpy as np

from pv.core import add_task

REPO = os.environ.get('SKGLM_REPO', '/repo')
N, TK = 2, 2


def mtbcd_task(T, fit_intercept, warm, P=1, anderson=False):
    import z3
    from pv import sym, symrun
    from pv.sproof import check_contract, zpre
    symrun.install()
    import skglm.solvers.multitask_bcd as M
    R = sym.SymReal
    L = sym.lift
    RS = z3.RealSort()
    rows = P + int(fit_intercept)
    X = [[z3.Real(f'X{i}_{j}') for j in range(P)] for i in range(N)]
    W0 = [[z3.Real(f'W0_{r}_{k}') for k in range(TK)] for r in range(rows)]
    tol = z3.Real('tol')
    lip = [z3.Real(f'lips{j}') for j in range(P)]
    GRAD = [[z3.Function(f'GRAD_{j}_{k}', *([RS] * (N * TK + 1))) for k in range(TK)] for j in range(P)]
    ISTEP = [z3.Function(f'ISTEP_{k}', *([RS] * (N * TK + 1))) for k in range(TK)]
    VAL = z3.Function('DATAFIT_VALUE', *([RS] * (N * TK + 1)))
    SC = [z3.Function(f'SCORE_{j}', *([RS] * (2 * TK + 1))) for j in range(P)]
    PEN = {r: z3.Function(f'PENALTY_VALUE_{r}rows', *([RS] * (r * TK + 1))) for r in (P, P + 1)}
    flat = lambda A: [L(v) for v in np.asarray(A, dtype=object).ravel()]
    mat = lambda ts: np.array([[R(t) for t in row] for row in ts], dtype=object)
    log = []
    cnt = [0]
    xw_box = [None]
    fc = [0]

    def uf(f, *args):
        """interface value: an uninterpreted function of the arguments; in the Anderson scenario (whose obligations need no functional
        consistency) a fresh constant, so that the queries stay in pure real arithmetic (counter-models are then found by nlsat)"""
        if anderson:
            fc[0] += 1
            return z3.Real(f'{f.name()}_call{fc[0]}')
        return f(*args)

    class Datafit:
        def initialize(self, X_, Y_):
            pass

        def get_lipschitz(self, X_, Y_):
            return np.array([R(t) for t in lip], dtype=object)

        def gradient_j(self, X_, Y_, W_, XW_, j):
            return np.array([R(uf(GRAD[int(j)][k], *flat(XW_))) for k in range(TK)], dtype=object)

        def intercept_update_step(self, Y_, XW_):
            return np.array([R(uf(ISTEP[k], *flat(XW_))) for k in range(TK)], dtype=object)

        def value(self, Y_, W_, XW_):
            log.append(('datafit.value', flat(XW_)))
            xw_box[0] = XW_                     # the solver's model-fit buffer (the last objective is evaluated on it before return)
            return R(uf(VAL, *flat(XW_)))

    class Penalty:
        def is_penalized(self, n):
            return np.ones(n, dtype=bool)

        def subdiff_distance(self, W_, grad, ws):
            out = np.array([R(uf(SC[int(j)], *(flat(W_[int(j)]) + flat(grad[k])))) for k, j in enumerate(ws)], dtype=object)
            log.append(('subdiff_distance', [flat(W_[r]) for r in range(W_.shape[0])], [flat(grad[k]) for k in range(len(ws))],
                        [int(j) for j in ws], [L(v) for v in out]))
            return out

        def prox_1feat(self, value, stepsize, j):
            cnt[0] += 1
            return np.array([R(z3.Real(f'prox{cnt[0]}_{k}')) for k in range(TK)], dtype=object)

        def value(self, W_):
            r = W_.shape[0]
            log.append(('penalty.value', r, flat(W_)))
            f = PEN.get(r)
            return R(uf(f, *flat(W_))) if f is not None else R(z3.Real(f'penalty_value_on_{r}_rows'))

    class RowNorm:
        """||row||: the solver only ever tests it against 0 (is the row in the support?) -- decided without square roots:
        ||row|| != 0  <=>  some entry != 0.  Any other use raises."""
        def __init__(self, row):
            self.row = [L(v) for v in row]

        def __ne__(self, o):
            if o != 0:
                raise sym.Unsupported('row norm compared with a non-zero value')
            return sym.SymBool(z3.Or(*[t != 0 for t in self.row]))

        def __eq__(self, o):
            if o != 0:
                raise sym.Unsupported('row norm compared with a non-zero value')
            return sym.SymBool(z3.And(*[t == 0 for t in self.row]))
        __hash__ = None

    def norm_shim(A, axis=None, **kw):
        A = np.asarray(A, dtype=object)
        if axis == 1:
            out = np.empty(A.shape[0], dtype=object)
            for r in range(A.shape[0]):
                out[r] = RowNorm(A[r])
            return out
        raise sym.Unsupported('norm without axis=1 in MultiTaskBCD._solve')

    class NP:
        """numpy for this module: max without forking (a z3 If-term), argpartition of a full-size working set without comparisons"""
        def __getattr__(self, name):
            return getattr(symrun.NPProxy(), name)

        @staticmethod
        def max(a, *args, **k):
            vals = list(np.asarray(a, dtype=object).ravel())
            if any(sym.is_inf(v) for v in vals):
                return float('inf')
            m = L(vals[0])
            for v in vals[1:]:
                m = z3.If(L(v) >= m, L(v), m)
            return R(m)

        @staticmethod
        def argpartition(a, kth, *args, **k):
            if -kth == len(a):
                return np.arange(len(a))
            return np.argpartition(a, kth, *args, **k)

        @staticmethod
        def all(a, *args, **k):
            if anderson:
                # `if not np.all(W[j] == old)` only skips an update by zero: always taking the update branch is equivalent and keeps
                # the 6-epoch run of the Anderson scenario to a handful of paths (the skip branch is covered by the kernel tasks)
                return False
            return np.all(a, *args, **k)

        class linalg:
            LinAlgError = np.linalg.LinAlgError

            @staticmethod
            def solve(A, b):
                # scipy/numpy contract: some vector (the normal equations of the extrapolation); arbitrary here
                return np.array([R(z3.Real(f'solve{i}')) for i in range(len(b))], dtype=object)

    def fitof(Wt):
        return [[sum((X[i][j] * Wt[j][k] for j in range(P)), z3.RealVal(0)) + (Wt[-1][k] if fit_intercept else 0)
                 for k in range(TK)] for i in range(N)]

    def run():
        del log[:]
        cnt[0] = 0
        fc[0] = 0
        xw_box[0] = None
        Xs = mat(X)
        Y = mat([[z3.Real(f'Y{i}_{k}') for k in range(TK)] for i in range(N)])
        if anderson:
            solver = M.MultiTaskBCD(max_iter=1, max_epochs=6, p0=P, tol=R(tol), use_acc=True, fit_intercept=fit_intercept)
        else:
            solver = M.MultiTaskBCD(max_iter=2, max_epochs=1, p0=P, tol=R(tol), use_acc=False, fit_intercept=fit_intercept)
        Wi = XWi = None
        if warm:
            Wi = mat(W0)
            XWi = mat(fitof(W0))
        saved = (M.norm, M.np)
        try:
            M.norm, M.np = norm_shim, NP()
            out = solver._solve(Xs, Y, Datafit(), Penalty(), Wi, XWi)
        finally:
            M.norm, M.np = saved
        return out, list(log), Wi, XWi, xw_box[0]

    def post(out, pth):
        (W, hist, stop), calls, Wi, XWi, XWret = out
        cs = []
        Wl = [[L(W[r, k]) for k in range(TK)] for r in range(rows)]
        if warm:
            cs.append(('returns-the-callers-W_init(in-place)', [], z3.BoolVal(W is Wi)))
            XW = XWi
        else:
            XW = None
        if anderson:
            if XWret is None:
                return cs                 # stopped at the first check: no epoch, no extrapolation on this path
            fw = fitof(Wl)
            pv = [c for c in calls if c[0] == 'penalty.value']
            cs.append(('anderson:inv-after-the-extrapolation-step:XW==X.W[:n_features]+W[-1]', [],
                       z3.And(*[L(XWret[i, k]) == fw[i][k] for i in range(N) for k in range(TK)])))
            cs.append(('anderson:objectives-compared-penalise-the-feature-rows-only', [], z3.BoolVal(all(c[1] == P for c in pv) and len(pv) >= 2)))
            return cs
        sd = [c for c in calls if c[0] == 'subdiff_distance' and len(c[3]) == P]
        if not sd:
            return cs + [('score-evaluated-at-least-once', [], z3.BoolVal(False))]
        last = sd[-1]
        fw = fitof(Wl)
        fwflat = [fw[i][k] for i in range(N) for k in range(TK)]
        if warm:
            cs.append(('inv:XW==X.W[:n_features]+W[-1]-on-the-callers-buffers', [],
                       z3.And(*[L(XW[i, k]) == fw[i][k] for i in range(N) for k in range(TK)])))
        stopped = L(stop) <= tol if not sym.is_inf(stop) else z3.BoolVal(False)
        cs.append(('stop<=tol=>score-evaluated-at-the-returned-W', [stopped],
                   z3.And(*[last[1][r][k] == Wl[r][k] for r in range(rows) for k in range(TK)])))
        cs.append(('stop<=tol=>score-uses-the-gradient-at-the-returned-fit(Inv)', [stopped],
                   z3.And(*[last[2][j][k] == GRAD[j][k](*fwflat) for j in range(P) for k in range(TK)])))
        cs.append(('stop<=tol=>stop>=every-feature-score', [stopped], z3.And(*[L(stop) >= v for v in last[4]])))
        if fit_intercept:
            ist = [ISTEP[k](*fwflat) for k in range(TK)]
            cs.append(('stop<=tol=>stop>=|intercept-optimality|-of-every-task', [stopped],
                       z3.And(*[z3.And(L(stop) >= t, L(stop) >= -t) for t in ist])))
        # history
        n_sd = len(sd)
        k = len(hist)
        cs.append(('history-has-one-entry-per-outer-iteration-performed', [],
                   z3.If(stopped, z3.BoolVal(k == n_sd - 1), z3.BoolVal(k == n_sd))))
        if k >= 1:
            exp = VAL(*fwflat) + PEN[P](*[Wl[r][kk] for r in range(P) for kk in range(TK)])
            cs.append(('history[-1]==datafit.value+penalty.value(W[:n_features])-of-the-returned-point', [], L(hist[-1]) == exp))
        return cs
    # warm start: non-zero rows (a zero row is the cold start's case) -- keeps the number of paths down
    pre = zpre([tol > 0] + [t > 0 for t in lip] + ([W0[r][0] > 0 for r in range(rows)] if warm else []) +
               ([sum(z3.Real(f'solve{i}') for i in range(5)) != 0] if anderson else []) +
               # Anderson scenario: every epoch moves every coefficient (a zero move only skips an update by zero): keeps the six
               # epochs on one path
               ([z3.Real(f'prox1_{k}') != 0 for k in range(TK)] +
                [z3.Real(f'prox{e + 1}_{k}') != z3.Real(f'prox{e}_{k}') for e in range(1, 6) for k in range(TK)] if anderson else []))
    check_contract(T, f'MultiTaskBCD._solve[fit_intercept={fit_intercept},{"warm" if warm else "cold"}]', run, pre, post, strength='B',
                   safety=False, replay=dict(fn='contracts.mtbcd:replay', args=dict(fit_intercept=fit_intercept)))


for _fi in (False, True):
    for _w in (False, True):
        add_task(['C01', 'C05', 'C17'], f'solvers:MultiTaskBCD._solve[p=1,fi={int(_fi)},{"warm" if _w else "cold"}]', mtbcd_task, strength='B',
                 fit_intercept=_fi, warm=_w, P=1)
for _fi in (False, True):
    add_task(['C01', 'C03', 'C05'], f'solvers:MultiTaskBCD._solve[p=1,fi={int(_fi)},cold,anderson-step]', mtbcd_task, strength='B',
             fit_intercept=_fi, warm=False, P=1, anderson=True)
add_task(['C01', 'C05', 'C17'], 'solvers:MultiTaskBCD._solve[p=2,fi=0,cold]', mtbcd_task, strength='B', tier='thorough',
         fit_intercept=False, warm=False, P=2)


def anderson_objective_task(T):
    """the inline Anderson step of MultiTaskBCD accepts the extrapolated point only if  datafit.value + penalty.value  of the feature rows
    decreased: both sides of the comparison evaluate the penalty on a slice [:n_features] (AST obligation)"""
    from pv.struct import load_function
    fn, tree = load_function(os.path.join(REPO, 'skglm/solvers/multitask_bcd.py'), 'MultiTaskBCD._solve')
    cmp_ = [n for n in ast.walk(fn) if isinstance(n, ast.If) and isinstance(n.test, ast.Compare)
            and ast.unparse(n.test).replace(' ', '') == 'p_obj_acc<p_obj']
    if len(cmp_) != 1:
        T.failed('anderson/acceptance-test-found', f'{len(cmp_)} tests `p_obj_acc < p_obj`')
        return
    defs = {}
    for n in ast.walk(fn):
        if isinstance(n, ast.Assign) and len(n.targets) == 1 and isinstance(n.targets[0], ast.Name) \
                and n.targets[0].id in ('p_obj', 'p_obj_acc') and n.lineno < cmp_[0].lineno and n.lineno > cmp_[0].lineno - 12:
            defs[n.targets[0].id] = n.value
    for nm, arr in (('p_obj', 'W'), ('p_obj_acc', 'W_acc')):
        v = defs.get(nm)
        calls = [c for c in ast.walk(v) if isinstance(c, ast.Call) and ast.unparse(c.func) == 'penalty.value'] if v is not None else []
        ok = len(calls) == 1 and ast.unparse(calls[0].args[0]).replace(' ', '') == f'{arr}[:n_features]'
        (T.ok if ok else T.failed)(f'anderson/{nm}-penalises-the-feature-rows-only', note=ast.unparse(v)[:160] if v is not None else 'not found')
    body = [ast.unparse(s).replace(' ', '') for s in cmp_[0].body]
    ok = 'W[:]=W_acc' in body and 'XW[:]=Xw_acc' in body
    (T.ok if ok else T.failed)('anderson/accepted-point-and-its-fit-are-copied-together', note=str(body))


add_task(['C03', 'C17'], 'solvers:MultiTaskBCD._solve/anderson-compares-the-true-objective', anderson_objective_task)


def replay(args, model):
    import warnings
    from skglm.solvers import MultiTaskBCD
    from skglm.datafits import QuadraticMultiTask
    from skglm.penalties import L2_1
    from skglm.utils.jit_compilation import compiled_clone
    rng = np.random.RandomState(0)
    n, p, t = 20, 5, 3
    X = np.asfortranarray(rng.randn(n, p))
    Y = np.asfortranarray(rng.randn(n, t) + 3.)
    df = compiled_clone(QuadraticMultiTask())
    fi = bool(args['fit_intercept'])
    found = []
    with warnings.catch_warnings():
        warnings.simplefilter('ignore')
        for alpha, kw in ((0.1, dict(max_epochs=5)), (0.1, dict(max_epochs=50000)), (1e3, dict())):
            pen = compiled_clone(L2_1(alpha))
            try:
                W, obj, stop = MultiTaskBCD(max_iter=20, tol=1e-8, fit_intercept=fi, **kw).solve(X, Y, df, pen)
            except Exception as ex:      # noqa
                found.append(f'alpha={alpha} {kw}: raised {type(ex).__name__}: {str(ex)[:100]}')
                continue
            XW = X @ W[:p] + (W[-1] if fi else 0.)
            true_obj = ((Y - XW) ** 2).sum() / (2 * n) + alpha * np.linalg.norm(W[:p], axis=1).sum()
            if len(obj) and abs(obj[-1] - true_obj) > 1e-8 * max(1., abs(true_obj)):
                found.append(f'alpha={alpha} {kw}: last history entry {obj[-1]:.6g}, objective of the returned point {true_obj:.6g}')
            ig = float(np.abs((XW - Y).mean(axis=0)).max()) if fi else 0.
            if stop <= 1e-8 and ig > 1e-6:
                found.append(f'alpha={alpha} {kw}: stop_crit {stop:.3g} <= tol but intercept gradient {ig:.3g}')
    if found:
        return dict(confirmed=True, detail='; '.join(found), inputs=dict(seed=0, n=n, p=p, tasks=t, fit_intercept=fi))
    return dict(confirmed=False, detail='native scenarios pass', inputs={})

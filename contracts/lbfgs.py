"""LBFGS._solve (C01, C17): the solver delegates the iteration to scipy.optimize.minimize; what skglm owns is the wiring.  The REAL
`_solve` is executed (front end S: symbolic X, y on a 2x2 design; the real Quadratic datafit (dense) and a datafit known only through its interface (dense and CSC); real L2 penalty) with
`scipy.optimize.minimize` replaced by a stub carrying scipy's documented contract: it evaluates the `fun` / `jac` it is given,
calls `callback` once per iteration with an arbitrary (symbolic) iterate, and returns result.x = the last iterate,
result.jac = jac(result.x), result.success arbitrary.

  C01  returned stopping value == max_j |d/dw_j (datafit(Xw) + penalty(w))| at the RETURNED w, recomputed here from X, y, w alone
       (smooth problem: the optimality violation is the gradient's sup norm); the tolerance handed to scipy is self.tol with ftol = 0
  C17  one history entry per callback, entry k == datafit.value + penalty.value at the k-th iterate; last entry is the objective of
       the returned point
Bounded: 2x2 design, 2 iterations; all real values.
"""
import numpy as np

from pv.core import add_task


def lbfgs_task(T, datafit_name, sparse_X):
    import types
    import z3
    from pv import sym, symrun
    from pv.sproof import check_contract, zpre
    from .c06 import Env
    symrun.install()
    import skglm.solvers.lbfgs as M
    LBFGS = M.LBFGS
    GR = [z3.Function(f'DATAFIT_GRAD_{j}', z3.RealSort(), z3.RealSort(), z3.RealSort()) for j in range(2)]
    VAL = z3.Function('DATAFIT_VALUE', z3.RealSort(), z3.RealSort(), z3.RealSort())

    class StubDatafit:
        """a smooth datafit known only through its interface: value / gradient / gradient_sparse are functions of the model fit
        (their own contracts -- == documented loss and its derivative, sparse == dense -- are C06 / C10)"""
        def value(self, y, w, Xw):
            return R(VAL(sym.lift(Xw[0]), sym.lift(Xw[1])))

        def gradient(self, X, y, Xw):
            return np.array([R(GR[j](sym.lift(Xw[0]), sym.lift(Xw[1]))) for j in range(2)], dtype=object)

        def gradient_sparse(self, data, indptr, indices, y, Xw):
            return self.gradient(None, y, Xw)
    DF = StubDatafit if datafit_name == 'stub' else symrun.get('skglm.datafits.single_task', datafit_name)
    L2 = symrun.get('skglm.penalties.separable', 'L2')
    e = Env(2, 2)
    R = sym.SymReal
    L = sym.lift
    a = z3.Real('alpha')
    its = [[z3.Real(f'it{k}_{j}') for j in range(2)] for k in range(2)]
    tol = z3.Real('tol')
    rec = {}

    def minimize(fun=None, jac=None, x0=None, method=None, options=None, callback=None, **kw):
        rec.update(method=method, options=options, x0=x0)
        x = None
        for k in range(2):
            x = np.array([R(v) for v in its[k]], dtype=object)
            callback(x)
        return types.SimpleNamespace(x=x, jac=jac(x), success=True, fun=fun(x))

    class SpX:
        """CSC view of the dense symbolic design (all entries stored)"""
        def __init__(self, X):
            self.X = X
            self.shape = X.shape
            self.data = np.array([X[i, j] for j in range(2) for i in range(2)], dtype=object)
            self.indices = np.array([0, 1, 0, 1])
            self.indptr = np.array([0, 2, 4])

        def __matmul__(self, w):
            return np.array([sum((self.X[i, j] * w[j] for j in range(2)), R(z3.RealVal(0))) for i in range(2)], dtype=object)

    def run():
        rec.clear()
        X = e.symX()
        y = e.sym(e.y)
        df = DF()
        pen = L2(R(a))
        solver = LBFGS(max_iter=7, tol=R(tol))
        saved = (M.scipy.optimize.minimize, M.issparse)
        try:
            M.scipy = types.SimpleNamespace(optimize=types.SimpleNamespace(minimize=minimize))
            M.issparse = lambda A: isinstance(A, SpX)
            out = solver._solve(SpX(X) if sparse_X else X, y, df, pen)
        finally:
            import scipy as _sc
            M.scipy = _sc
            M.issparse = saved[1]
        return out, dict(rec)

    from .c06 import BY_NAME
    from pv.diff import d as D
    fit = lambda w: [sum((e.X[i][j] * w[j] for j in range(2)), z3.RealVal(0)) for i in range(2)]
    if datafit_name == 'stub':
        spec_grad = lambda w: [GR[j](*fit(w)) + a * w[j] for j in range(2)]
        spec_obj = lambda w: VAL(*fit(w)) + a * (w[0] * w[0] + w[1] * w[1]) / 2
        extra_pre = []
    else:
        V = BY_NAME[datafit_name].V(e)                  # documented loss as a term over the model fit e.z and e.y
        at = lambda term, w: z3.substitute(term, *[(e.z[i], fit(w)[i]) for i in range(2)])
        dz = [D(V, e.z[i]) for i in range(2)]
        spec_grad = lambda w: [sum((at(dz[i], w) * e.X[i][j] for i in range(2)), z3.RealVal(0)) + a * w[j] for j in range(2)]
        spec_obj = lambda w: at(V, w) + a * (w[0] * w[0] + w[1] * w[1]) / 2
        extra_pre = BY_NAME[datafit_name].pre(e) + BY_NAME[datafit_name].hess_pre(e)

    def post(out, p):
        (w, hist, stop), r = out
        cs = []
        wl = [L(w[0]), L(w[1])]
        g = spec_grad(wl)
        ag = [z3.If(t >= 0, t, -t) for t in g]
        cs.append(('returned-w-is-the-last-iterate', [], z3.And(wl[0] == its[1][0], wl[1] == its[1][1])))
        cs.append(('stop_crit==sup-norm-of-the-objective-gradient-at-the-returned-w', [],
                   L(stop) == z3.If(ag[0] >= ag[1], ag[0], ag[1])))
        ok_opts = isinstance(r.get('options'), dict) and r['options'].get('gtol') is not None \
            and z3.is_true(z3.simplify(L(r['options']['gtol']) == tol)) and r['options'].get('ftol') == 0. \
            and r['options'].get('maxiter') == 7 and r.get('method') == 'L-BFGS-B'
        cs.append(('scipy-stops-on-gtol==self.tol-only(ftol=0,maxiter=self.max_iter)', [], z3.BoolVal(bool(ok_opts))))
        cs.append(('history-has-one-entry-per-iteration', [], z3.BoolVal(len(hist) == 2)))
        if len(hist) == 2:
            for k in range(2):
                cs.append((f'history[{k}]==datafit.value+penalty.value(iterate-{k})', [], L(hist[k]) == spec_obj(its[k])))
        return cs
    pre = zpre([a > 0, tol > 0] + extra_pre)
    check_contract(T, f'LBFGS._solve[{datafit_name},{"sparse" if sparse_X else "dense"}]', run, pre, post, strength='B', safety=False)


for _d, _s in (('stub', False), ('stub', True)):
    if True:
        add_task(['C01', 'C17'], f'solvers:LBFGS._solve[{_d},{"sparse" if _s else "dense"}]', lbfgs_task, strength='B',
                 datafit_name=_d, sparse_X=_s)

"""FISTA._solve (C02, C03, C17): the REAL method executed (front end S) on a 2x2 symbolic design for up to 3 iterations with a datafit
and a penalty known only through their interfaces (uninterpreted functions: the gradient and value of the datafit are functions of the
model fit, prox_vec / subdiff_distance / value of the penalty are functions of their arguments; their own contracts are C06-C08).

  structure (C02)  w_{k+1} == prox_vec(z_k - grad(X z_k) / L, 1 / L)  with L = get_global_lipschitz(_sparse) and
                   z_{k+1} == w_{k+1} + (t_k - 1) / t_{k+1} (w_{k+1} - w_k),  t_{k+1} = (1 + sqrt(1 + 4 t_k^2)) / 2, t_0 = 1, z_0 = w_0 = 0
                   (a fixed point of the prox-gradient map has score 0: C08's lemma)
  history (C17)    one entry per iteration performed, entry k == datafit.value(X w_k) + penalty.value(w_k); the last entry is the
                   objective of the returned point
  stop value (C17) when the run stops on its tolerance, the returned stopping value is the optimality violation OF THE RETURNED POINT:
                   max_j score_j(w_j, grad_j(X w))  resp.  max_j |w_j - prox(w - grad(X w) / L, 1 / L)_j|
Bounded: 2 features, 2 samples, 3 iterations; all real values.
"""
import numpy as np

from pv.core import add_task

NIT = 3


def fista_task(T, opt_strategy, sparse_X):
    import z3
    from pv import sym, symrun
    from pv.sproof import check_contract, zpre
    from .c06 import Env
    symrun.install()
    import skglm.solvers.fista as M
    e = Env(2, 2)
    R = sym.SymReal
    L = sym.lift
    RS = z3.RealSort()
    GR = [z3.Function(f'DATAFIT_GRAD_{j}', RS, RS, RS) for j in range(2)]
    VAL = z3.Function('DATAFIT_VALUE', RS, RS, RS)
    PROX = [z3.Function(f'PROX_{j}', RS, RS, RS, RS) for j in range(2)]          # (z_0, z_1, step) -> component j
    SC = [z3.Function(f'SCORE_{j}', RS, RS, RS) for j in range(2)]
    PEN = z3.Function('PENALTY_VALUE', RS, RS, RS)
    Lc, tol = z3.Real('lipschitz'), z3.Real('tol')
    arr = lambda ts: np.array([R(t) for t in ts], dtype=object)
    log = []

    class Datafit:
        def get_global_lipschitz(self, X, y):
            return R(Lc)

        def get_global_lipschitz_sparse(self, data, indptr, indices, y):
            return R(Lc)

        def value(self, y, w, Xw):
            return R(VAL(L(Xw[0]), L(Xw[1])))

        def gradient(self, X, y, Xw):
            out = arr([GR[j](L(Xw[0]), L(Xw[1])) for j in range(2)])
            log.append(('gradient', [L(Xw[0]), L(Xw[1])], out))
            return out

        def gradient_sparse(self, data, indptr, indices, y, Xw):
            return self.gradient(None, y, Xw)

    class Penalty:
        def prox_vec(self, z, step):
            log.append(('prox_vec', [L(z[0]), L(z[1])], L(step)))
            return arr([PROX[j](L(z[0]), L(z[1]), L(step)) for j in range(2)])

        def subdiff_distance(self, w, grad, ws):
            log.append(('subdiff_distance', [L(w[0]), L(w[1])], [L(grad[0]), L(grad[1])]))
            return arr([SC[int(j)](L(w[int(j)]), L(grad[k])) for k, j in enumerate(ws)])

        def value(self, w):
            return R(PEN(L(w[0]), L(w[1])))

    class SpX:
        def __init__(self, X):
            self.X, self.shape = X, X.shape
            self.data = np.array([X[i, j] for j in range(2) for i in range(2)], dtype=object)
            self.indices, self.indptr = np.array([0, 1, 0, 1]), np.array([0, 2, 4])

        def __matmul__(self, w):
            return np.array([sum((self.X[i, j] * w[j] for j in range(2)), R(z3.RealVal(0))) for i in range(2)], dtype=object)

    def run():
        del log[:]
        X = e.symX()
        solver = M.FISTA(max_iter=NIT, tol=R(tol), opt_strategy=opt_strategy)
        saved = M.issparse
        try:
            M.issparse = lambda A: isinstance(A, SpX)
            return solver._solve(SpX(X) if sparse_X else X, e.sym(e.y), Datafit(), Penalty()), list(log)
        finally:
            M.issparse = saved

    fit = lambda w: [sum((e.X[i][j] * w[j] for j in range(2)), z3.RealVal(0)) for i in range(2)]

    def expected(k_iters):
        """the iterates the documented scheme produces (z3 terms), and the momentum constants as the code's float operations"""
        w = [z3.RealVal(0), z3.RealVal(0)]
        z = [z3.RealVal(0), z3.RealVal(0)]
        t_new = 1.
        ws = []
        for _ in range(k_iters):
            t_old = t_new
            t_new = (1 + np.sqrt(1 + 4 * t_old ** 2)) / 2
            g = [GR[j](*fit(z)) for j in range(2)]
            zz = [z[j] - (1 / Lc) * g[j] for j in range(2)]
            w_new = [PROX[j](zz[0], zz[1], 1 / Lc) for j in range(2)]
            beta = sym.lift((t_old - 1.) / t_new)
            z = [w_new[j] + beta * (w_new[j] - w[j]) for j in range(2)]
            w = w_new
            ws.append(w)
        return ws

    def post(out, p):
        (w, hist, stop), calls = out
        k = len(hist)
        cs = [('iterations-performed-in-1..max_iter', [], z3.BoolVal(1 <= k <= NIT))]
        if not (1 <= k <= NIT):
            return cs
        ws = expected(k)
        wl = [L(w[0]), L(w[1])]
        cs.append((f'returned-w==iterate-{k}-of-the-accelerated-prox-gradient-scheme', [], z3.And(wl[0] == ws[-1][0], wl[1] == ws[-1][1])))
        for i in range(k):
            cs.append((f'history[{i}]==datafit.value(X.w_{i + 1})+penalty.value(w_{i + 1})', [],
                       L(hist[i]) == VAL(*fit(ws[i])) + PEN(*ws[i])))
        # the stopping value describes the returned point: the score is evaluated AT the returned w WITH the gradient at X w
        stopped_on_tol = L(stop) < tol
        fw = fit(wl)
        if T.prop != 'C17':
            return cs                     # the stop-value clause is C17's
        glast = [c for c in calls if c[0] == 'gradient'][-1]          # the gradient evaluation the stop value is built from
        gres = [L(v) for v in glast[2]]
        # (A) that gradient is the gradient AT THE RETURNED POINT (polynomial identity in X, w: no uninterpreted function)
        cs.append(('stop_crit<tol=>gradient-behind-the-stop-value-is-evaluated-at-the-returned-point', [stopped_on_tol],
                   z3.And(*[glast[1][i] == fw[i] for i in range(2)])))
        # (B) and the stop value is the score / fixed-point residual of the returned w with THAT gradient
        if opt_strategy == 'subdiff':
            last = [c for c in calls if c[0] == 'subdiff_distance'][-1]
            cs.append(('stop_crit<tol=>score-evaluated-at-the-returned-w-with-the-last-gradient', [stopped_on_tol],
                       z3.And(last[1][0] == wl[0], last[1][1] == wl[1], *[last[2][j] == gres[j] for j in range(2)])))
        else:
            last = [c for c in calls if c[0] == 'prox_vec'][-1]
            cs.append(('stop_crit<tol=>fixed-point-residual-of-the-returned-w-with-the-last-gradient', [stopped_on_tol],
                       z3.And(*[last[1][j] == wl[j] - gres[j] / Lc for j in range(2)], last[2] == 1 / Lc)))
        return cs
    check_contract(T, f'FISTA._solve[{opt_strategy},{"sparse" if sparse_X else "dense"}]', run, zpre([Lc > 0, tol > 0]), post,
                   strength='B', safety=False, replay=dict(fn='contracts.fista:replay', args=dict(opt_strategy=opt_strategy)))


for _o in ('subdiff', 'fixpoint'):
    for _s in (False, True):
        add_task(['C17', 'C02', 'C03'], f'solvers:FISTA._solve[{_o},{"sparse" if _s else "dense"}]', fista_task, strength='B',
                 opt_strategy=_o, sparse_X=_s)


def replay(args, model):
    """native search: FISTA stops on its tolerance while the violation recomputed at the returned point exceeds the tolerance"""
    import warnings
    from skglm.solvers import FISTA
    from skglm.datafits import Quadratic
    from skglm.penalties import L1, SLOPE
    from skglm.utils.jit_compilation import compiled_clone
    df = compiled_clone(Quadratic())
    worst = None
    for seed in (146, 3, 17, 58, 101):
        rng = np.random.RandomState(seed)
        n, p = rng.randint(3, 30), rng.randint(2, 12)
        X = rng.randn(n, p) * np.exp(rng.randn(p))
        y = X @ rng.randn(p) + rng.randn(n)
        am = np.max(np.abs(X.T @ y)) / n
        for frac in (0.5, 0.1, 0.01):
            fix = args['opt_strategy'] == 'fixpoint'
            pen = compiled_clone(SLOPE(frac * am * np.ones(p)) if fix else L1(frac * am))
            for tol in ((0.3, 0.1, 1e-2) if fix else (am * 0.3, am * 0.1, am * 1e-2)):
                with warnings.catch_warnings():
                    warnings.simplefilter('ignore')
                    w, obj, stop = FISTA(max_iter=2000, tol=tol, opt_strategy=args['opt_strategy']).solve(X, y, df, pen)
                g = X.T @ (X @ w - y) / n
                if args['opt_strategy'] == 'subdiff':
                    true = float(np.max(pen.subdiff_distance(w, g, np.arange(p))))
                else:
                    Lg = np.linalg.norm(X, ord=2) ** 2 / n
                    true = float(np.max(np.abs(w - pen.prox_vec(w - g / Lg, 1 / Lg))))
                if stop < tol and true > tol * (1 + 1e-6) and (worst is None or true / tol > worst['ratio']):
                    worst = dict(seed=seed, n=int(n), p=int(p), alpha=float(frac * am), tol=float(tol), stop_crit=float(stop),
                                 recomputed_violation=true, ratio=true / tol, iterations=len(obj))
    if worst:
        return dict(confirmed=True, detail='FISTA stopped on its tolerance but the violation recomputed at the returned point exceeds '
                    'the tolerance (the criterion uses the gradient at the previous extrapolated point)', inputs=worst)
    return dict(confirmed=False, detail='no run found where the recomputed violation exceeds the tolerance', inputs={})

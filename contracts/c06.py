"""C06 / C09 / C10(accessors) -- datafits are faithful.

contract, per datafit D with documented loss V(y, z) (z = the linear predictor Xw), on the REAL methods:
    value(y, w, Xw)                       ensures == V(y, Xw)                              [documented formula]
    raw_grad(y, Xw)[i]                    ensures == dV/dz_i
    raw_hessian(y, Xw)[i]                 ensures == d2V/dz_i^2          (C09; off-diagonal second derivatives are 0)
    gradient_scalar(X, y, w, Xw, j)       requires initialize(X, y) was called   ensures == sum_i X_ij dV/dz_i (+ dV/dw_j)
    gradient(X, y, Xw)[j]                 ensures the same
    intercept_update_step(y, Xw)          ensures == kappa_D * sum_i dV/dz_i ,  kappa_D > 0 stated per datafit
    get_lipschitz(X, y)[j]                ensures >= sum_i X_ij^2 d2V/dz_i^2   for every z            (C09)
    *_sparse(data, indptr, indices, ...)  requires valid CSC   ensures the same numbers as the dense contract on the
                                          matrix the CSC triple denotes, for EVERY sparsity pattern   (C06, C10)
The derivatives on the right are obtained by symbolic differentiation (pv/diff.py) of the documented V -- they are
not transcribed from the code.

Strength: all REAL values of X, y, w, Xw, hyper-parameters; array SHAPES are enumerated (bounded: n_samples = 2,
n_features = 2 in the quick tier, every CSC sparsity pattern incl. empty columns) -- reported as bounded (`B`),
not counted as unbounded proof.
"""
import itertools

import numpy as np

from pv.core import add_task, describe

describe('C06', level='proof', floor=100,
         explanation='datafit accessor contracts against the symbolic derivatives of the documented loss; '
                     'every real value, shapes bounded (2x2 / 3x2, all CSC patterns)',
         assumptions=['array shapes are enumerated up to a bound: obligations are for all real values but n_samples<=2(3), n_features<=2',
                      'exp/log are uninterpreted with the axiom instances exp x > 0, exp(x) exp(-x) = 1, exp x >= 1 + x, exp(log t) = t',
                      'symbolic differentiator pv/diff.py (cross-checked against sympy on every run)'])

ST = 'skglm.datafits.single_task'


def _R(name):
    import z3
    return z3.Real(name)


class Env:
    """the symbolic inputs shared by all accessor contracts of one shape"""

    def __init__(self, n, p):
        import z3
        self.n, self.p = n, p
        self.X = [[z3.Real(f'X{i}_{j}') for j in range(p)] for i in range(n)]
        self.y = [z3.Real(f'y{i}') for i in range(n)]
        self.z = [z3.Real(f'z{i}') for i in range(n)]          # the linear predictor Xw, an independent point
        self.w = [z3.Real(f'w{j}') for j in range(p)]
        self.sw = [z3.Real(f'sw{i}') for i in range(n)]
        self.delta = z3.Real('delta')

    def sym(self, zs):
        from pv import sym
        return np.array([sym.SymReal(e) for e in zs], dtype=object)

    def symX(self, pattern=None):
        from pv import sym
        a = np.empty((self.n, self.p), dtype=object)
        for i in range(self.n):
            for j in range(self.p):
                a[i, j] = sym.SymReal(self.X[i][j]) if (pattern is None or pattern[i][j]) else 0.0
        return a

    def Xz(self, pattern, i, j):
        import z3
        return self.X[i][j] if (pattern is None or pattern[i][j]) else z3.RealVal(0)

    def csc(self, pattern):
        """CSC triple denoting X restricted to `pattern` (present entries symbolic)"""
        from pv import sym
        data, indices, indptr = [], [], [0]
        for j in range(self.p):
            for i in range(self.n):
                if pattern[i][j]:
                    data.append(sym.SymReal(self.X[i][j]))
                    indices.append(i)
            indptr.append(len(data))
        d = np.empty(len(data), dtype=object)
        for k, v in enumerate(data):
            d[k] = v
        return d, np.array(indptr, dtype=np.int32), np.array(indices, dtype=np.int32)


def _sum(xs):
    import z3
    xs = list(xs)
    return z3.Sum(xs) if xs else z3.RealVal(0)


# ---- documented losses (spec), as functions of the Env -------------------------------------------------

def V_quadratic(e):
    return _sum((e.y[i] - e.z[i]) * (e.y[i] - e.z[i]) for i in range(e.n)) / (2 * e.n)


def V_wquadratic(e):
    return _sum(e.sw[i] * (e.y[i] - e.z[i]) * (e.y[i] - e.z[i]) for i in range(e.n)) / (2 * _sum(e.sw))


def V_logistic(e):
    from pv.sym import EXP, LOG
    return _sum(LOG(1 + EXP(-e.y[i] * e.z[i])) for i in range(e.n)) / e.n


def V_svc(e):
    # dual of the hinge-loss SVC as written in LinearSVC's docstring: 1/2 ||(yX)^T w||^2 - sum_i w_i
    return _sum(e.z[i] * e.z[i] for i in range(e.n)) / 2 - _sum(e.w)


def V_huber(e):
    import z3
    def f(r):
        a = z3.If(r >= 0, r, -r)
        return z3.If(a <= e.delta, r * r / 2, e.delta * a - e.delta * e.delta / 2)
    return _sum(f(e.y[i] - e.z[i]) for i in range(e.n)) / e.n


def V_poisson(e):
    from pv.sym import EXP
    return _sum(EXP(e.z[i]) - e.y[i] * e.z[i] for i in range(e.n)) / e.n


def V_gamma(e):
    from pv.sym import EXP, LOG
    return _sum(e.z[i] + e.y[i] * EXP(-e.z[i]) - 1 - LOG(e.y[i]) for i in range(e.n)) / e.n


class DF:
    def __init__(self, name, cls, V, make, pre=None, kappa=None, module=ST, hess_pre=None, uses_w=False,
                 gs_sparse_sig='std', M=None):
        self.M = M          # M(e, i): documented bound of the per-sample curvature d2V/dz_i^2 (C09)
        self.name, self.cls, self.V, self.make, self.module = name, cls, V, make, module
        self.pre = pre or (lambda e: [])
        self.kappa = kappa
        self.hess_pre = hess_pre or (lambda e: [])
        self.uses_w = uses_w
        self.gs_sparse_sig = gs_sparse_sig


def _q(a, b):
    import z3
    return z3.RealVal(a) / z3.RealVal(b)


def _mk_plain(cls):
    return lambda K, e: K()


DATAFITS = [
    DF('Quadratic', 'Quadratic', V_quadratic, _mk_plain('Quadratic'), kappa=1, M=lambda e, i: _q(1, e.n)),
    DF('WeightedQuadratic', 'WeightedQuadratic', V_wquadratic, lambda K, e: K(e.sym(e.sw)),
       pre=lambda e: [s >= 0 for s in e.sw] + [_sum(e.sw) > 0], kappa=1, M=lambda e, i: e.sw[i] / _sum(e.sw)),
    DF('Logistic', 'Logistic', V_logistic, _mk_plain('Logistic'), kappa='1/4',
       hess_pre=lambda e: [y * y == 1 for y in e.y], M=lambda e, i: _q(1, 4 * e.n)),
    DF('QuadraticSVC', 'QuadraticSVC', V_svc, _mk_plain('QuadraticSVC'), uses_w=True, M=lambda e, i: _q(1, 1)),
    DF('Huber', 'Huber', V_huber, lambda K, e: K(__import__('pv.sym', fromlist=['SymReal']).SymReal(e.delta)),
       pre=lambda e: [e.delta > 0], kappa=1, M=lambda e, i: _q(1, e.n)),
    DF('Poisson', 'Poisson', V_poisson, _mk_plain('Poisson'), pre=lambda e: [y >= 0 for y in e.y], kappa=1),
    DF('Gamma', 'Gamma', V_gamma, _mk_plain('Gamma'), pre=lambda e: [y > 0 for y in e.y], kappa=1),
]
BY_NAME = {d.name: d for d in DATAFITS}


def _kappa(df, e):
    import z3
    if df.kappa == 'n':
        return z3.RealVal(e.n)
    if df.kappa == '1/4':
        return z3.RealVal('1/4')
    return z3.RealVal(df.kappa)


def _spec_grad(df, e):
    from pv.diff import d
    V = df.V(e)
    return V, [d(V, zi) for zi in e.z]


def dense_task(T, name, n, p, focus='C06'):
    """all dense accessors of one datafit at one shape"""
    import z3
    from pv import sym, symrun
    from pv.diff import d
    from pv.sproof import check_contract, zpre
    symrun.install()
    df = BY_NAME[name]
    e = Env(n, p)
    K = symrun.get(df.module, df.cls)
    pre = zpre(df.pre(e))
    V, dV = _spec_grad(df, e)
    dW = [d(V, wj) for wj in e.w] if df.uses_w else [z3.RealVal(0)] * p
    strength = 'B'
    rp = dict(fn='contracts.c06:replay_datafit', args=dict(name=name, n=n, p=p))
    T.cover('requires', pre)

    def inst():
        return df.make(K, e)

    C09M = ('raw_hessian', 'get_lipschitz')

    def has(m):
        return hasattr(K, m) and ((m in C09M) == (focus == 'C09'))

    y, z, w = (lambda: e.sym(e.y)), (lambda: e.sym(e.z)), (lambda: e.sym(e.w))

    if has('value'):
        check_contract(T, 'value', lambda: inst().value(y(), w(), z()), pre,
                       lambda out, pth: [('==documented-loss', [], sym.lift(out) == V)],
                       replay=dict(rp, args=dict(rp['args'], method='value')), strength=strength)
    if has('raw_grad'):
        check_contract(T, 'raw_grad', lambda: inst().raw_grad(y(), z()), pre,
                       lambda out, pth: [(f'[{i}]==dV/dz_{i}', [], sym.lift(out[i]) == dV[i]) for i in range(n)],
                       replay=dict(rp, args=dict(rp['args'], method='raw_grad')), strength=strength)
    if has('raw_hessian'):
        hp = pre + zpre(df.hess_pre(e))

        def post_h(out, pth):
            cs = [(f'[{i}]==d2V/dz_{i}^2', [], sym.lift(out[i]) == d(dV[i], e.z[i])) for i in range(n)]
            return cs
        check_contract(T, 'raw_hessian', lambda: inst().raw_hessian(y(), z()), hp, post_h,
                       replay=dict(rp, args=dict(rp['args'], method='raw_hessian')), strength=strength)
        for i in range(n):
            for k in range(n):
                if i != k:
                    T.prove(f'spec-hessian-is-diagonal[{i},{k}]', hp, d(dV[i], e.z[k]) == 0, strength=strength)

    def init_then(f):
        def run():
            D = inst()
            if hasattr(D, 'initialize'):
                D.initialize(e.symX(), y())
            return f(D)
        return run

    def gexp(j):
        return _sum(e.X[i][j] * dV[i] for i in range(n)) + dW[j]

    if has('gradient_scalar'):
        for j in range(p):
            check_contract(T, f'gradient_scalar[j={j}]',
                           init_then(lambda D, j=j: D.gradient_scalar(e.symX(), y(), w(), z(), j)), pre,
                           lambda out, pth, j=j: [('==sum_i X_ij dV/dz_i', [], sym.lift(out) == gexp(j))],
                           replay=dict(rp, args=dict(rp['args'], method='gradient_scalar', j=j)), strength=strength)
    if has('gradient'):
        check_contract(T, 'gradient', init_then(lambda D: D.gradient(e.symX(), y(), z())), pre,
                       lambda out, pth: [(f'[{j}]==sum_i X_ij dV/dz_i', [], sym.lift(out[j]) == gexp(j)) for j in range(p)],
                       replay=dict(rp, args=dict(rp['args'], method='gradient')), strength=strength)
    if has('intercept_update_step') and df.kappa is not None:
        kap = _kappa(df, e)
        check_contract(T, 'intercept_update_step', lambda: inst().intercept_update_step(y(), z()), pre,
                       lambda out, pth: [(f'==kappa*sum_i dV/dz_i[kappa={df.kappa}]', [], sym.lift(out) == kap * _sum(dV))],
                       replay=dict(rp, args=dict(rp['args'], method='intercept_update_step')), strength=strength)
    if has('get_lipschitz') and df.M is not None:
        hp = pre + zpre(df.hess_pre(e))
        _curvature_lemmas(T, df, e, hp, dV, strength)

        def post_l(out, pth):
            return [(f'[{j}]>=sum_i X_ij^2 M_i', [],
                     sym.lift(out[j]) >= _sum(e.X[i][j] * e.X[i][j] * df.M(e, i) for i in range(n)))
                    for j in range(p)]
        check_contract(T, 'get_lipschitz', lambda: inst().get_lipschitz(e.symX(), y()), hp, post_l,
                       replay=dict(rp, args=dict(rp['args'], method='get_lipschitz')), strength=strength)


def _curvature_lemmas(T, df, e, hp, dV, strength):
    """(a) per-sample: d2V/dz_i^2 <= M_i at every point; (b) composition: L >= sum X^2 M  and  H_i <= M_i  =>  L >= sum X^2 H_i
    (H_i abstract: holds for every value, in particular the true curvature)"""
    import z3
    from pv.diff import d
    n = e.n
    for i in range(n):
        T.prove(f'lemma:curvature-bound[{i}]', hp, d(dV[i], e.z[i]) <= df.M(e, i), strength=strength)
    L = z3.Real('L')
    H = [z3.Real(f'H{i}') for i in range(n)]
    T.prove('lemma:compose-curvature', hp + [H[i] <= df.M(e, i) for i in range(n)]
            + [L >= _sum(e.X[i][0] * e.X[i][0] * df.M(e, i) for i in range(n))],
            L >= _sum(e.X[i][0] * e.X[i][0] * H[i] for i in range(n)), strength=strength)


def patterns(n, p):
    cells = [(i, j) for i in range(n) for j in range(p)]
    for bits in itertools.product([1, 0], repeat=len(cells)):
        pat = [[0] * p for _ in range(n)]
        for (i, j), b in zip(cells, bits):
            pat[i][j] = b
        yield pat


def sparse_task(T, name, n, p, focus='C06'):
    """all *_sparse accessors of one datafit, every CSC sparsity pattern of the shape"""
    import z3
    from pv import sym, symrun
    from pv.diff import d
    from pv.sproof import check_contract, zpre
    symrun.install()
    df = BY_NAME[name]
    e = Env(n, p)
    K = symrun.get(df.module, df.cls)
    pre = zpre(df.pre(e))
    V, dV = _spec_grad(df, e)
    dW = [d(V, wj) for wj in e.w] if df.uses_w else [z3.RealVal(0)] * p
    strength = 'B'
    y, z, w = (lambda: e.sym(e.y)), (lambda: e.sym(e.z)), (lambda: e.sym(e.w))
    any_method = False
    for pat in patterns(n, p):
        tag = ''.join(str(b) for row in pat for b in row)
        rp = dict(fn='contracts.c06:replay_datafit', args=dict(name=name, n=n, p=p, pattern=pat))

        def gexp(j):
            return _sum(e.Xz(pat, i, j) * dV[i] for i in range(n)) + dW[j]

        def init_then(f):
            def run():
                D = df.make(K, e)
                data, indptr, indices = e.csc(pat)
                if hasattr(D, 'initialize_sparse'):
                    D.initialize_sparse(data, indptr, indices, y())
                return f(D, data, indptr, indices)
            return run

        if hasattr(K, 'gradient_scalar_sparse') and focus == 'C06':
            any_method = True
            for j in range(p):
                check_contract(T, f'gradient_scalar_sparse[j={j},csc={tag}]',
                               init_then(lambda D, a, b, c, j=j: D.gradient_scalar_sparse(a, b, c, y(), z(), j)), pre,
                               lambda out, pth, j=j: [('==dense-contract', [], sym.lift(out) == gexp(j))],
                               replay=dict(rp, args=dict(rp['args'], method='gradient_scalar_sparse', j=j)), strength=strength)
        for m in ('full_grad_sparse', 'gradient_sparse'):
            if hasattr(K, m) and focus == 'C06':
                any_method = True
                check_contract(T, f'{m}[csc={tag}]',
                               init_then(lambda D, a, b, c, m=m: getattr(D, m)(a, b, c, y(), z())), pre,
                               lambda out, pth: [(f'[{j}]==dense-contract', [], sym.lift(out[j]) == gexp(j)) for j in range(p)],
                               replay=dict(rp, args=dict(rp['args'], method=m)), strength=strength)
        if hasattr(K, 'get_lipschitz_sparse') and df.M is not None and focus == 'C09':
            any_method = True
            hp = pre + zpre(df.hess_pre(e))

            def post_l(out, pth):
                return [(f'[{j}]>=sum_i X_ij^2 M_i', [],
                         sym.lift(out[j]) >= _sum(e.Xz(pat, i, j) * e.Xz(pat, i, j) * df.M(e, i) for i in range(n)))
                        for j in range(p)]
            check_contract(T, f'get_lipschitz_sparse[csc={tag}]',
                           init_then(lambda D, a, b, c: D.get_lipschitz_sparse(a, b, c, y())), hp, post_l,
                           replay=dict(rp, args=dict(rp['args'], method='get_lipschitz_sparse')), strength=strength)
    if not any_method:
        T.ok('no-sparse-accessor', note='this datafit offers no *_sparse method', strength=strength)


for _d in DATAFITS:
    for _f in ('C06', 'C09'):
        add_task(_f, f'single_task:{_d.name}[dense,2x2]', dense_task, strength='B', name=_d.name, n=2, p=2, focus=_f)
        add_task([_f, 'C10'] if _f == 'C06' else _f, f'single_task:{_d.name}[sparse,2x2]', sparse_task, strength='B', name=_d.name, n=2, p=2, focus=_f)
        add_task(_f, f'single_task:{_d.name}[dense,3x2]', dense_task, strength='B', tier='thorough', name=_d.name, n=3, p=2, focus=_f)
        add_task(_f, f'single_task:{_d.name}[sparse,3x2]', sparse_task, strength='B', tier='thorough', name=_d.name, n=3, p=2, focus=_f)
describe('C09', level='proof', floor=20,
         explanation='raw_hessian == second derivative of the documented loss; get_lipschitz(_sparse) >= curvature along each coordinate',
         assumptions=['array shapes enumerated up to a bound (2x2 quick, 3x2 thorough, every CSC pattern); all real values',
                      'global constants of the single-task datafits: contracts/c09g.py (the spectral norm itself is a recorded stub: numpy / power-method accuracy is not decided); Cox: (sum_i s_i / n) ||X||_2^2 under contract, with the link raw_hessian_i <= sum(s)/n proved at n = 2 for every tie / censoring pattern (contracts/c06b.py); the group and multitask datafits define no global constant'])


# ------------------------------------------------------------------ native replay

def replay_datafit(args, model):
    """run the real compiled accessor on the model's data and compare with a finite-difference / closed-form
    evaluation of the documented loss"""
    import importlib
    from fractions import Fraction
    from skglm.utils.jit_compilation import compiled_clone
    from scipy import sparse

    def fl(nm, default=0.5):
        v = model.get(nm)
        if v is None:
            return default
        try:
            return float(Fraction(v))
        except (ValueError, ZeroDivisionError):
            return float(v.rstrip('?'))
    name, n, p, method = args['name'], args['n'], args['p'], args['method']
    pat = args.get('pattern')
    X = np.array([[fl(f'X{i}_{j}') if (pat is None or pat[i][j]) else 0.0 for j in range(p)] for i in range(n)])
    y = np.array([fl(f'y{i}', 1.0) for i in range(n)])
    z = np.array([fl(f'z{i}') for i in range(n)])
    w = np.array([fl(f'w{j}') for j in range(p)])
    sw = np.array([fl(f'sw{i}', 1.0) for i in range(n)])
    delta = fl('delta', 1.0)
    mod = importlib.import_module(ST)
    K = getattr(mod, name)
    D = K(sw) if name == 'WeightedQuadratic' else (K(delta) if name == 'Huber' else K())

    def V(zz, ww=w):
        if name == 'Quadratic':
            return np.sum((y - zz) ** 2) / (2 * n)
        if name == 'WeightedQuadratic':
            return np.sum(sw * (y - zz) ** 2) / (2 * sw.sum())
        if name == 'Logistic':
            return np.sum(np.log1p(np.exp(-y * zz))) / n
        if name == 'QuadraticSVC':
            return np.sum(zz ** 2) / 2 - np.sum(ww)
        if name == 'Huber':
            r = np.abs(y - zz)
            return np.sum(np.where(r <= delta, r ** 2 / 2, delta * r - delta ** 2 / 2)) / n
        if name == 'Poisson':
            return np.sum(np.exp(zz) - y * zz) / n
        if name == 'Gamma':
            return np.sum(zz + y * np.exp(-zz) - 1 - np.log(y)) / n
        raise KeyError(name)

    def dV(zz):
        h = 1e-6
        return np.array([(V(zz + h * np.eye(n)[i]) - V(zz - h * np.eye(n)[i])) / (2 * h) for i in range(n)])

    def d2V(zz):
        h = 1e-4
        return np.array([(V(zz + h * np.eye(n)[i]) - 2 * V(zz) + V(zz - h * np.eye(n)[i])) / h ** 2 for i in range(n)])
    inputs = dict(X=X.tolist(), y=y.tolist(), z=z.tolist(), w=w.tolist(), sw=sw.tolist(), delta=delta, method=method)
    try:
        D = compiled_clone(D)
        sparse_m = method.endswith('_sparse')
        if sparse_m:
            Xs = sparse.csc_matrix(X) if pat is None else _csc_from_pattern(X, pat)
            if hasattr(D, 'initialize_sparse'):
                D.initialize_sparse(Xs.data, Xs.indptr, Xs.indices, y)
        elif hasattr(D, 'initialize') and method in ('gradient_scalar', 'gradient'):
            D.initialize(X, y)
        g = dV(z)
        gw = np.array([-1.0] * p) if name == 'QuadraticSVC' else np.zeros(p)
        if method == 'value':
            got, exp = D.value(y, w, z), V(z)
        elif method == 'raw_grad':
            got, exp = D.raw_grad(y, z), g
        elif method == 'raw_hessian':
            got, exp = D.raw_hessian(y, z), d2V(z)
        elif method == 'gradient_scalar':
            j = args['j']
            got, exp = D.gradient_scalar(X, y, w, z, j), X[:, j] @ g + gw[j]
        elif method == 'gradient':
            got, exp = D.gradient(X, y, z), X.T @ g + gw
        elif method == 'intercept_update_step':
            kap = dict(Logistic=0.25).get(name, 1.0)
            got, exp = D.intercept_update_step(y, z), kap * g.sum()
        elif method == 'gradient_scalar_sparse':
            j = args['j']
            got, exp = D.gradient_scalar_sparse(Xs.data, Xs.indptr, Xs.indices, y, z, j), X[:, j] @ g + gw[j]
        elif method in ('full_grad_sparse', 'gradient_sparse'):
            got, exp = getattr(D, method)(Xs.data, Xs.indptr, Xs.indices, y, z), X.T @ g + gw
        elif method in ('get_lipschitz', 'get_lipschitz_sparse'):
            L = D.get_lipschitz(X, y) if method == 'get_lipschitz' else D.get_lipschitz_sparse(Xs.data, Xs.indptr, Xs.indices, y)
            curv = (X ** 2).T @ d2V(z)
            bad = bool(np.any(np.asarray(L) < curv - 1e-6 * (1 + np.abs(curv))))
            return dict(confirmed=bad, detail=f'L={np.asarray(L).tolist()} curvature={curv.tolist()}', inputs=inputs)
        else:
            return dict(confirmed=False, detail=f'no replay for {method}', inputs=inputs)
    except Exception as ex:     # noqa
        return dict(confirmed=True, detail=f'real {name}.{method} raised {type(ex).__name__}: {str(ex)[:300]}', inputs=inputs)
    got, exp = np.asarray(got, dtype=float), np.asarray(exp, dtype=float)
    tol = 1e-4 if method == 'raw_hessian' else 1e-6
    bad = (not np.all(np.isfinite(got))) or bool(np.any(np.abs(got - exp) > tol * (1 + np.abs(exp))))
    return dict(confirmed=bad, detail=f'{name}.{method} = {got.tolist()} ; derivative of the documented loss = {exp.tolist()}',
                inputs=inputs)


def _csc_from_pattern(X, pat):
    from scipy import sparse
    n, p = X.shape
    data, indices, indptr = [], [], [0]
    for j in range(p):
        for i in range(n):
            if pat[i][j]:
                data.append(X[i, j])
                indices.append(i)
        indptr.append(len(data))
    return sparse.csc_matrix((np.array(data, dtype=float), np.array(indices, dtype=np.int32),
                              np.array(indptr, dtype=np.int32)), shape=(n, p))

"""C11 -- each ready-made estimator minimises exactly its documented objective.

(1) structural [U]: the REAL text of every `fit` is partially evaluated (AST, re-read each run): `self.<param>` are
    symbols, constructor calls are bound against the REAL `__init__` signatures, branches on parameters fork.  The
    postcondition of `fit` is the (datafit, penalty, solver) triple that reaches `_glm_fit` / `solver.solve`:
      - it is the documented triple (class and every argument as a function of the constructor parameters),
      - every documented constructor parameter of the estimator flows into the triple (an ignored parameter fails).
(2) objective [B]: the built datafit and penalty classes are instantiated (real classes, front end S) with symbolic
    hyper-parameters and `datafit.value + penalty.value` is proved equal to the objective written in the
    estimator's docstring, for all real X (2x2), y, w.
Stationarity of the fitted coefficients for that objective is C01 for the solver the triple names.
"""
import ast
import inspect
import os

import numpy as np

from pv.core import add_task, describe

describe('C11', level='proof', floor=20,
         explanation='partial evaluation of every real fit(): built (datafit, penalty, solver) triple == documented triple; '
                     'every constructor parameter flows; built objective == documented objective (2x2, all reals)',
         assumptions=['sklearn validation helpers (check_array, _validate_data, LabelEncoder) by contract: value-preserving',
                      'objective equality at 2x2 designs (bounded), all real values'])

REPO = os.environ.get('SKGLM_REPO', '/repo')


class Param:
    def __init__(self, name): self.name = name
    def __repr__(self): return f'self.{self.name}'
    def key(self): return ('param', self.name)


class Const:
    def __init__(self, v): self.v = v
    def __repr__(self): return repr(self.v)
    def key(self): return ('const', repr(self.v))


class Ctor:
    def __init__(self, cls, args): self.cls, self.args = cls, args
    def __repr__(self): return f'{self.cls}({", ".join(f"{k}={v!r}" for k, v in self.args.items())})'
    def key(self): return ('ctor', self.cls, tuple(sorted((k, v.key()) for k, v in self.args.items())))


class Expr:
    """any other expression: remembered by source text and by the parameters it depends on"""
    def __init__(self, src, deps): self.src, self.deps = src, set(deps)
    def __repr__(self): return f'<{self.src}>'
    def key(self): return ('expr', self.src)


def deps_of(t):
    if isinstance(t, Param): return {t.name}
    if isinstance(t, Ctor):
        out = set()
        for v in t.args.values():
            out |= deps_of(v)
        return out
    if isinstance(t, Expr): return set(t.deps)
    return set()


class FitEval:
    """partial evaluator of a fit() body"""

    def __init__(self, classes):
        self.classes = classes
        self.calls = []         # (conds, kind, [terms])

    def ev(self, env, e):
        if isinstance(e, ast.Constant):
            return Const(e.value)
        if isinstance(e, ast.Name):
            return env.get(e.id, Expr(e.id, ()))
        if isinstance(e, ast.Attribute):
            if isinstance(e.value, ast.Name) and e.value.id == 'self':
                return env.get('self.' + e.attr, Param(e.attr))
            b = self.ev(env, e.value)
            return Expr(ast.unparse(e), deps_of(b))
        if isinstance(e, ast.Call):
            fn = ast.unparse(e.func)
            args = [self.ev(env, a) for a in e.args]
            kw = {k.arg: self.ev(env, k.value) for k in e.keywords if k.arg}
            if fn in self.classes:
                sig = inspect.signature(self.classes[fn].__init__)
                names = [p for p in sig.parameters if p != 'self']
                bound = {}
                for n, a in zip(names, args):
                    bound[n] = a
                bound.update(kw)
                for n in names:
                    if n not in bound and sig.parameters[n].default is not inspect._empty:
                        bound[n] = Const(sig.parameters[n].default)
                return Ctor(fn, bound)
            if fn == 'compiled_clone':
                return args[0]
            if fn == '_glm_fit':
                self.calls.append((list(env['__conds']), '_glm_fit', args))
                return Expr('model', ())
            if fn.endswith('.solve') or fn.endswith('.path'):
                recv = self.ev(env, e.func.value)
                self.calls.append((list(env['__conds']), fn.rsplit('.', 1)[1], [recv] + args, kw))
                return Expr(fn + '()', ())
            d = set()
            for a in args + list(kw.values()):
                d |= deps_of(a)
            return Expr(ast.unparse(e)[:80], d)
        if isinstance(e, ast.IfExp):
            # both arms: parameters of either arm count as flowing; remember the arms
            t, b, o = self.ev(env, e.test), self.ev(env, e.body), self.ev(env, e.orelse)
            src = ast.unparse(e.test)
            if 'is None' in src and isinstance(o, Param):
                return o if src.startswith(f'self.{o.name}') else Expr(ast.unparse(e)[:80], deps_of(b) | deps_of(o))
            return Expr(ast.unparse(e)[:80], deps_of(b) | deps_of(o) | deps_of(t))
        d = set()
        for ch in ast.iter_child_nodes(e):
            if isinstance(ch, ast.expr):
                d |= deps_of(self.ev(env, ch))
        if isinstance(e, ast.Compare) and len(e.ops) == 1 and isinstance(e.ops[0], ast.Eq):
            l, r = self.ev(env, e.left), self.ev(env, e.comparators[0])
            if isinstance(l, Param) and isinstance(r, Const):
                return Expr(f'self.{l.name} == {r.v!r}', {l.name})
        return Expr(ast.unparse(e)[:80], d)

    def run(self, env, body):
        """returns list of envs that fall through"""
        cur = [env]
        for st in body:
            nxt = []
            for en in cur:
                nxt += self.stmt(en, st)
            cur = nxt
        return cur

    def stmt(self, env, st):
        if isinstance(st, ast.Assign):
            v = self.ev(env, st.value)
            env = dict(env)
            for t in st.targets:
                if isinstance(t, ast.Name):
                    env[t.id] = v
                elif isinstance(t, ast.Attribute) and isinstance(t.value, ast.Name) and t.value.id == 'self':
                    env['self.' + t.attr] = v
                    env.setdefault('__selfwrites', [])
                    env['__selfwrites'] = env['__selfwrites'] + [(t.attr, st.lineno)]
                elif isinstance(t, (ast.Tuple, ast.List)):
                    for x in t.elts:
                        if isinstance(x, ast.Name):
                            env[x.id] = Expr(x.id, deps_of(v))
            return [env]
        if isinstance(st, ast.Expr):
            self.ev(env, st.value)
            return [env]
        if isinstance(st, ast.Return):
            if st.value is not None:
                self.ev(env, st.value)
            return []
        if isinstance(st, ast.Raise):
            return []
        if isinstance(st, ast.If):
            out = []
            src = ast.unparse(st.test)
            for flag, body in ((True, st.body), (False, st.orelse)):
                en = dict(env)
                en['__conds'] = env['__conds'] + [(src, flag)]
                out += self.run(en, body) if body else [en]
            return out
        if isinstance(st, (ast.For, ast.While)):
            return self.run(env, st.body)
        if isinstance(st, ast.Try):
            return self.run(env, st.body)
        if isinstance(st, ast.With):
            return self.run(env, st.body)
        return [env]


def classes():
    import skglm.datafits as D
    import skglm.penalties as P
    import skglm.solvers as S
    from skglm.experimental.sqrt_lasso import SqrtQuadratic
    from skglm.datafits import group as G
    out = {}
    for mod in (D, P, S, G):
        for n in dir(mod):
            o = getattr(mod, n)
            if inspect.isclass(o):
                out[n] = o
    out['SqrtQuadratic'] = SqrtQuadratic
    return out


def extract(relpath, cls, method='fit'):
    from pv.struct import load_function
    fn, tree = load_function(os.path.join(REPO, relpath), f'{cls}.{method}')
    ev = FitEval(classes())
    ev.run({'__conds': []}, fn.body)
    return ev, fn


P = Param
# documented triples: estimator -> list of alternatives (condition substring or None, datafit, penalty, solver-class, solver-args)
ACD_ARGS = dict(max_iter=P('max_iter'), max_epochs=P('max_epochs'), p0=P('p0'), tol=P('tol'), ws_strategy=P('ws_strategy'),
                fit_intercept=P('fit_intercept'), warm_start=P('warm_start'), verbose=P('verbose'))
SPEC = {
    'Lasso': [(None, ('Quadratic', {}), ('L1', dict(alpha=P('alpha'), positive=P('positive'))), ('AndersonCD', ACD_ARGS))],
    'WeightedLasso': [(('self.weights is None', True), ('Quadratic', {}), ('L1', dict(alpha=P('alpha'), positive=P('positive'))), ('AndersonCD', ACD_ARGS)),
                      (('self.weights is None', False), ('Quadratic', {}), ('WeightedL1', dict(alpha=P('alpha'), weights=P('weights'), positive=P('positive'))), ('AndersonCD', ACD_ARGS))],
    'ElasticNet': [(None, ('Quadratic', {}), ('L1_plus_L2', dict(alpha=P('alpha'), l1_ratio=P('l1_ratio'), positive=P('positive'))), ('AndersonCD', ACD_ARGS))],
    'MCPRegression': [(('self.weights is None', True), ('Quadratic', {}), ('MCPenalty', dict(alpha=P('alpha'), gamma=P('gamma'), positive=P('positive'))), ('AndersonCD', ACD_ARGS)),
                      (('self.weights is None', False), ('Quadratic', {}), ('WeightedMCPenalty', dict(alpha=P('alpha'), gamma=P('gamma'), weights=P('weights'), positive=P('positive'))), ('AndersonCD', ACD_ARGS))],
    'SparseLogisticRegression': [(None, ('Logistic', {}), ('L1', dict(alpha=P('alpha'))),
                                  ('ProxNewton', dict(max_iter=P('max_iter'), max_pn_iter=P('max_epochs'), tol=P('tol'),
                                                      fit_intercept=P('fit_intercept'), warm_start=P('warm_start'), verbose=P('verbose'))))],
    'LinearSVC': [(None, ('QuadraticSVC', {}), ('IndicatorBox', dict(alpha=P('C'))),
                   ('AndersonCD', dict(ACD_ARGS, fit_intercept=P('fit_intercept'))))],
    'GroupLasso': [(None, ('QuadraticGroup', {}), ('WeightedGroupL2', dict(alpha=P('alpha'), positive=P('positive'))),
                    ('GroupBCD', dict(max_iter=P('max_iter'), max_epochs=P('max_epochs'), p0=P('p0'), tol=P('tol'),
                                      ws_strategy=P('ws_strategy'), fit_intercept=P('fit_intercept'),
                                      warm_start=P('warm_start'), verbose=P('verbose'))))],
    'MultiTaskLasso': [(None, ('QuadraticMultiTask', {}), ('L2_1', dict(alpha=P('alpha'))),
                        ('MultiTaskBCD', ACD_ARGS))],
    'CoxEstimator': [(('self.l1_ratio == 1.0', True), ('Cox', dict(use_efron=Expr("self.method == 'efron'", {'method'}))),
                      ('L1', dict(alpha=P('alpha'))), ('ProxNewton', dict(max_iter=P('max_iter'), tol=P('tol'), verbose=P('verbose'),
                                                                       fit_intercept=Const(False)))),
                     (('0.0 < self.l1_ratio < 1.0', True), ('Cox', dict(use_efron=Expr("self.method == 'efron'", {'method'}))),
                      ('L1_plus_L2', dict(alpha=P('alpha'), l1_ratio=P('l1_ratio'))),
                      ('ProxNewton', dict(max_iter=P('max_iter'), tol=P('tol'), verbose=P('verbose'), fit_intercept=Const(False)))),
                     (('self.l1_ratio == 0.0', True), ('Cox', dict(use_efron=Expr("self.method == 'efron'", {'method'}))),
                      ('L2', dict(alpha=P('alpha'))), ('LBFGS', dict(max_iter=P('max_iter'), tol=P('tol'), verbose=P('verbose'))))],
}
FILES = {k: 'skglm/estimators.py' for k in SPEC}
# parameters that configure validation / the estimator itself rather than the optimisation problem
NOT_IN_TRIPLE = {'MultiTaskLasso': {'copy_X'}, 'GroupLasso': {'groups', 'weights'}, 'CoxEstimator': set(), 'WeightedLasso': set()}


def _cond_z3(src, flag):
    """the few condition shapes on parameters that fit() uses, as z3 constraints (None = not about a parameter)"""
    import re
    import z3
    m = re.fullmatch(r'self\.(\w+) == ([-\d.]+)', src)
    if m:
        c = z3.Real('p_' + m.group(1)) == z3.RealVal(m.group(2))
        return c if flag else z3.Not(c)
    m = re.fullmatch(r'([-\d.]+) < self\.(\w+) < ([-\d.]+)', src)
    if m:
        v = z3.Real('p_' + m.group(2))
        c = z3.And(z3.RealVal(m.group(1)) < v, v < z3.RealVal(m.group(3)))
        return c if flag else z3.Not(c)
    m = re.fullmatch(r'self\.(\w+) is None', src)
    if m:
        c = z3.Bool('none_' + m.group(1))
        return c if flag else z3.Not(c)
    return None


def feasible(conds):
    import z3
    so = z3.Solver()
    for s_, f in conds:
        c = _cond_z3(s_, f)
        if c is not None:
            so.add(c)
    return so.check() != z3.unsat


def cond_params(conds):
    import re
    out = set()
    for s_, f in conds:
        out |= set(re.findall(r'self\.(\w+)', s_))
    return out


def _same(a, b):
    return a.key() == b.key()


def structural_task(T, est):
    from pv import symrun
    symrun.install()
    import importlib
    ev, fn = extract(FILES[est], est)
    calls = [c for c in ev.calls if c[1] in ('_glm_fit', 'solve')]
    if not calls:
        T.failed('fit-reaches-the-solver', 'no call to _glm_fit / solver.solve found in fit()')
        return
    estcls = getattr(importlib.import_module('skglm.estimators'), est)
    init_params = [p for p in inspect.signature(estcls.__init__).parameters if p != 'self']
    alts = SPEC[est]
    for k, c in enumerate(calls):
        conds = c[0]
        if not feasible(conds):
            continue
        if c[1] == '_glm_fit':
            D, Pn, Sv = c[2][3], c[2][4], c[2][5]
        else:
            Sv, D, Pn = c[2][0], c[2][3], c[2][4]
        ctag = ','.join(f"{'' if f else 'not '}{s}" for s, f in conds if 'self.' in s) or 'always'
        alt = None
        for a in alts:
            if a[0] is None or all(any(s.replace(' ', '') == c0.replace(' ', '') and f == f0 for s, f in conds)
                                   for c0, f0 in ([a[0]] if isinstance(a[0][0], str) else a[0])):
                alt = a
                break
        if alt is None:
            T.ok(f'triple[{ctag}]/no-documented-alternative', note='branch outside the documented table (not checked)')
            continue
        for role, got, (ecls, eargs) in (('datafit', D, alt[1]), ('penalty', Pn, alt[2]), ('solver', Sv, alt[3])):
            if not isinstance(got, Ctor):
                T.failed(f'triple[{ctag}]/{role}-is-built-by-fit', f'{role} reaching the solver is {got!r}')
                continue
            if got.cls != ecls:
                T.failed(f'triple[{ctag}]/{role}-class', f'documented {ecls}, built {got.cls}')
            else:
                T.ok(f'triple[{ctag}]/{role}-class', backend='ast')
            for an, av in eargs.items():
                g = got.args.get(an)
                if g is None or not _same(g, av):
                    T.failed(f'triple[{ctag}]/{role}.{an}', f'documented {av!r}, built {g!r}  ({got!r})')
                else:
                    T.ok(f'triple[{ctag}]/{role}.{an}', backend='ast')
        # a parameter also flows when it selects which triple is built
        flowing = deps_of(D) | deps_of(Pn) | deps_of(Sv) | cond_params(conds)
        for p in init_params:
            if p in NOT_IN_TRIPLE.get(est, set()):
                # must at least be read somewhere in fit()
                used = any(isinstance(n, ast.Attribute) and n.attr == p and isinstance(n.value, ast.Name) and n.value.id == 'self'
                           for n in ast.walk(fn))
                (T.ok if used else T.failed)(f'param-flows[{ctag}]/{p}', note='' if used else f'self.{p} is never read in fit()')
                continue
            if p in flowing:
                T.ok(f'param-flows[{ctag}]/{p}', backend='ast')
            else:
                T.failed(f'param-flows[{ctag}]/{p}', f'constructor parameter `{p}` does not reach the (datafit, penalty, solver) triple: '
                         f'{D!r}, {Pn!r}, {Sv!r}')


for _e in SPEC:
    add_task('C11', f'estimators:{_e}.fit', structural_task, est=_e)


# ----------------------------------------------------------------------------- documented objective == built objective

def objective_task(T, est):
    import z3
    from pv import sym, symrun
    from pv.sproof import check_contract, zpre
    from .catalog import objarr
    from .c06 import Env, _sum
    symrun.install()
    R = sym.SymReal
    e = Env(2, 2)
    a, rho, g, C = (z3.Real(n) for n in ('alpha', 'l1_ratio', 'gamma', 'C'))
    wt = [z3.Real('wt0'), z3.Real('wt1')]
    ev, fn = extract(FILES[est], est)
    calls = [c for c in ev.calls if c[1] in ('_glm_fit', 'solve')]
    pmap = dict(alpha=R(a), l1_ratio=R(rho), gamma=R(g), C=R(C), positive=False)
    cls = classes()
    n = 2
    sq = _sum((e.y[i] - e.z[i]) * (e.y[i] - e.z[i]) for i in range(n)) / (2 * n)
    ab = lambda t: z3.If(t >= 0, t, -t)
    l1 = a * (ab(e.w[0]) + ab(e.w[1]))
    doc = {
        'Lasso': sq + l1,
        'WeightedLasso': sq + a * (wt[0] * ab(e.w[0]) + wt[1] * ab(e.w[1])),
        'ElasticNet': sq + rho * l1 + (1 - rho) * a / 2 * (e.w[0] * e.w[0] + e.w[1] * e.w[1]),
        'SparseLogisticRegression': _sum(sym.LOG(1 + sym.EXP(-e.y[i] * e.z[i])) for i in range(n)) / n + l1,
    }.get(est)
    if doc is None:
        T.ok('objective/not-tabulated', note='documented objective not tabulated for this estimator', strength='B')
        return
    for k, c in enumerate(calls):
        conds = c[0]
        D, Pn = (c[2][3], c[2][4])
        if est == 'WeightedLasso' and ('self.weights is None', True) in conds:
            continue

        def inst(t):
            kw = {}
            for an, av in t.args.items():
                if isinstance(av, Param):
                    if av.name == 'weights':
                        kw[an] = objarr([R(wt[0]), R(wt[1])])
                    elif av.name in pmap:
                        kw[an] = pmap[av.name]
                    else:
                        raise KeyError(av.name)
                elif isinstance(av, Const):
                    kw[an] = av.v
            return cls[t.cls](**kw)

        def build():
            d, p = inst(D), inst(Pn)
            return d.value(e.sym(e.y), e.sym(e.w), e.sym(e.z)) + p.value(e.sym(e.w))
        pre = zpre([a > 0, rho >= 0, rho <= 1, wt[0] >= 0, wt[1] >= 0])
        check_contract(T, f'objective[{k}]', build, pre,
                       lambda out, p: [('built-objective==documented-objective', [], sym.lift(out) == doc)],
                       strength='B', safety=False)


for _e in ('Lasso', 'WeightedLasso', 'ElasticNet', 'SparseLogisticRegression'):
    add_task('C11', f'estimators:{_e}.objective', objective_task, strength='B', est=_e)


def experimental_params_task(T):
    """estimators outside estimators.py (skglm/experimental): every constructor parameter is READ by fit() or by a method fit() reaches
    through self-calls -- a documented argument that is never read cannot influence the fitted model (the weakest form of
    `every documented argument flows`; the full triple check above covers estimators.py)"""
    from pv.frame import Package
    P = Package(REPO)
    found = 0
    for (m, n), c in sorted(P.classes.items()):
        if '.experimental.' not in m:
            continue
        bases = {ast.unparse(b).split('.')[-1] for _, cc in P.class_mro(m, c) for b in cc.bases}
        if not bases & {'BaseEstimator', 'LinearModel', 'RegressorMixin'} or P.find_method(m, c, 'fit') is None:
            continue
        found += 1
        init = P.find_method(m, c, '__init__')
        params = [a.arg for a in init[2].args.args[1:] + init[2].args.kwonlyargs] if init else []
        seen, todo, loads = set(), ['fit'], set()
        while todo:
            nm = todo.pop()
            if nm in seen:
                continue
            seen.add(nm)
            mm = P.find_method(m, c, nm)
            if mm is None:
                continue
            for x in ast.walk(mm[2]):
                if isinstance(x, ast.Attribute) and isinstance(x.value, ast.Name) and x.value.id == 'self':
                    if isinstance(x.ctx, ast.Load):
                        loads.add(x.attr)
                        todo.append(x.attr)
        for p in params:
            (T.ok if p in loads else T.failed)(f'param-read/{c.name}.{p}', note='' if p in loads else
                                               f'constructor parameter `{p}` of {c.name} is never read by fit() or the methods it calls')
    (T.ok if found >= 2 else T.failed)('param-read/experimental-estimators-found', note=f'{found} classes')


add_task('C11', 'experimental:constructor-parameters-are-read', experimental_params_task)

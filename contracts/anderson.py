"""utils/anderson.py -- AndersonAcceleration.extrapolate under contract (discharges the call contract opaque mode assumes for
`accelerator.extrapolate`, C01 / C03 / C05):

  * the first K+1 calls store the pair and return it unchanged with is_extrapolated == False
  * call K+2 returns an AFFINE combination of the stored iterates (coefficients sum to one, whatever np.linalg.solve returned), the
    SAME combination for w and Xw; hence, if every stored pair satisfied  Xw_k == X w_k + b  so does the extrapolated pair
  * after an extrapolation (or a LinAlgError) the buffer restarts (current_iter == 0); on LinAlgError the input pair is returned unchanged

The REAL method is executed (front end S) with np.linalg.solve replaced by a stub returning an arbitrary symbolic vector (its sum != 0
is the precondition of the division in the code: a failed safety obligation otherwise -- see `sum-of-solve-output-nonzero`).
Bounded: K = 2, 2 features (+ intercept entry), 2 samples; all real values.
"""
import numpy as np

from pv.core import add_task


def anderson_task(T, raise_linalg):
    import types
    import z3
    from pv import sym, symrun
    from pv.sproof import check_contract, zpre
    symrun.install()
    import skglm.utils.anderson as M
    R = sym.SymReal
    L = sym.lift
    K, d, n = 2, 3, 2                      # w = (2 features + intercept entry)
    X = [[z3.Real(f'X{i}_{j}') for j in range(2)] for i in range(n)]
    W = [[z3.Real(f'w{k}_{j}') for j in range(d)] for k in range(K + 2)]
    zs = [z3.Real(f'solve{k}') for k in range(K)]
    fit = lambda w: [X[i][0] * w[0] + X[i][1] * w[1] + w[2] for i in range(n)]

    class LinAlg:
        LinAlgError = np.linalg.LinAlgError

        @staticmethod
        def solve(A, b):
            if raise_linalg:
                raise np.linalg.LinAlgError('singular')
            return np.array([R(t) for t in zs], dtype=object)

    class NP:
        linalg = LinAlg

        def __getattr__(self, name):
            return getattr(saved_np, name)
    saved_np = M.np

    def run():
        M.np = NP()
        try:
            acc = M.AndersonAcceleration(K=K)
            outs = []
            for k in range(K + 2):
                w = np.array([R(t) for t in W[k]], dtype=object)
                Xw = np.array([R(t) for t in fit(W[k])], dtype=object)
                outs.append(acc.extrapolate(w, Xw))
            return outs, acc.current_iter
        finally:
            M.np = saved_np

    def post(out, p):
        outs, cur = out
        cs = []
        for k in range(K + 1):
            w, Xw, fl = outs[k]
            cs.append((f'call-{k + 1}:returns-its-input-unchanged,not-extrapolated', [],
                       z3.And(z3.BoolVal(fl is False), *[L(w[j]) == W[k][j] for j in range(d)],
                              *[L(Xw[i]) == fit(W[k])[i] for i in range(n)])))
        w, Xw, fl = outs[K + 1]
        cs.append(('buffer-restarts-after-the-extrapolation-call', [], z3.BoolVal(cur == 0)))
        if raise_linalg:
            cs.append(('LinAlgError:returns-its-input-unchanged,not-extrapolated', [],
                       z3.And(z3.BoolVal(fl is False), *[L(w[j]) == W[K + 1][j] for j in range(d)])))
            return cs
        cs.append(('call-K+2:is_extrapolated', [], z3.BoolVal(fl is True)))
        wl = [L(w[j]) for j in range(d)]
        cs.append(('extrapolated-pair-is-consistent:Xw_acc==X.w_acc+b', [], z3.And(*[L(Xw[i]) == fit(wl)[i] for i in range(n)])))
        c = [zs[k] / sum(zs) for k in range(K)]
        cs.append(('extrapolated-w==affine-combination-of-the-last-K-stored-iterates', [],
                   z3.And(*[wl[j] == sum(c[k] * W[k + 1][j] for k in range(K)) for j in range(d)])))
        return cs
    pre = zpre([sum(zs) != 0])
    check_contract(T, f'AndersonAcceleration.extrapolate[K={K}{",LinAlgError" if raise_linalg else ""}]', run, pre, post, strength='B')


for _r in (False, True):
    add_task(['C01', 'C03', 'C05'], f'anderson:AndersonAcceleration.extrapolate[{"LinAlgError" if _r else "solve"}]', anderson_task,
             strength='B', raise_linalg=_r)

"""C08 -- the optimality measure is sound.

contract on every REAL `subdiff_distance(w, grad, ws)`:
    ensures  forall idx: out[idx] == dist(-grad[idx], [D^- phi_j(w_j), D^+ phi_j(w_j)])   (j = ws[idx], w_j in dom)
             out[idx] == +inf  <=>  w_j violates the configured constraint
relational lemma on the two real methods (no spec involved):
    prox_1d(w - s*g, s, j) == w  ==>  subdiff_distance(w, g)[.] == 0     (and <== for convex penalties)
unpenalised features contribute nothing to value().
The loop is of the `independent iterations` shape (checked on the AST each run): one arbitrary iteration
with symbolic values covers every length.
"""
import ast
import inspect
import textwrap

import numpy as np

from pv.core import add_task, describe
from . import spec as S
from .catalog import PENALTIES, NUMERIC_PENALTIES, by_tag, J, PenCase, SEP

describe('C08', level='proof', floor=60,
         explanation='subdiff_distance contracts (distance to the regular subdifferential of the spec value function), '
                     'prox fixed point <=> zero score lemma on the real methods, unpenalised features',
         assumptions=['independent-iterations loop shape is checked syntactically on the AST',
                      'block penalties: Gram abstraction lemma'])

# symbolic sub-differential specs for the three penalties whose VALUE is transcendental
SUBSPEC = {
    'L0_5': lambda v: S.PowSpec(v['alpha'], 1, 2),
    'L2_3': lambda v: S.PowSpec(v['alpha'], 2, 3),
    'LogSumPenalty': lambda v: S.LogSumSpec(v['alpha'], v['eps']),
}
ALL = PENALTIES + NUMERIC_PENALTIES


def _spec(case, zv):
    if case.cls in SUBSPEC:
        return SUBSPEC[case.cls](zv)
    return case.spec(zv)


def independent_iterations(fn, out_name=None):
    """AST check: the method body has exactly one top-level `for idx, j in enumerate(ws)` loop; inside it
    idx and j occur only as subscript indices; every store goes to <out>[idx] or to a plain local name.
    returns (ok, reason)"""
    src = textwrap.dedent(inspect.getsource(fn))
    f = ast.parse(src).body[0]
    loops = [n for n in f.body if isinstance(n, ast.For)]
    if len(loops) != 1:
        return False, f'{len(loops)} top-level loops'
    lp = loops[0]
    it = lp.iter
    if not (isinstance(it, ast.Call) and getattr(it.func, 'id', '') == 'enumerate' and isinstance(lp.target, ast.Tuple)):
        return False, 'loop is not `for idx, j in enumerate(ws)`'
    idx, j = (t.id for t in lp.target.elts)
    index_uses = set()
    for n in ast.walk(lp):
        if isinstance(n, ast.Subscript):
            for m in ast.walk(n.slice):
                if isinstance(m, ast.Name) and m.id in (idx, j):
                    index_uses.add(id(m))
    locals_ = set()
    for n in ast.walk(lp):
        if isinstance(n, ast.Name) and n.id in (idx, j) and id(n) not in index_uses and n not in lp.target.elts:
            return False, f'loop variable {n.id} used outside a subscript (line {n.lineno})'
        if isinstance(n, (ast.Assign, ast.AugAssign)):
            tg = n.targets if isinstance(n, ast.Assign) else [n.target]
            for t in tg:
                if isinstance(t, ast.Name):
                    locals_.add(t.id)
                elif isinstance(t, ast.Subscript) and isinstance(t.value, ast.Name) and isinstance(t.slice, ast.Name) \
                        and t.slice.id == idx:
                    pass
                else:
                    return False, f'store to {ast.unparse(t)} (line {n.lineno})'
    # locals assigned in the loop must be assigned before use in the same iteration: approximate by
    # requiring that no local assigned in the loop is read before the loop
    return True, ''


def subdiff_task(T, tag):
    import z3
    from pv import sym, symrun
    from pv.sproof import check_contract, zpre
    symrun.install()
    case = by_tag(tag)
    zv = {n: z3.Real(n) for n in case.names()}
    sp = _spec(case, zv)
    w = [z3.Real('w0'), z3.Real('w1')]
    g = z3.Real('g')
    pre = zpre([sp.params_ok()])
    if case.cls in ('SCAD',):
        pre += [zv['alpha'] > 0]
    if case.cls == 'LogSumPenalty':
        pre += [zv['alpha'] > 0]
    cls = symrun.get(case.module, case.cls)
    ok, why = independent_iterations(cls.subdiff_distance)
    if ok:
        T.ok('loop-shape:independent-iterations', backend='ast')
    else:
        T.failed('loop-shape:independent-iterations', why, strength='U')

    def build():
        pen = case.instantiate({k: sym.SymReal(e) for k, e in zv.items()}, wrap='sym')
        wv = np.array([sym.SymReal(w[0]), sym.SymReal(w[1])], dtype=object)
        gv = np.array([sym.SymReal(g)], dtype=object)
        return pen.subdiff_distance(wv, gv, np.array([J]))

    t = w[J]
    dom = sp.dom(t)
    if dom is not True and not sp.inf_outside:
        pre = pre + [dom]        # box constraint: the contract speaks about feasible points only
        dom = True
    pieces = sp.sub(t)
    aux = S.take_aux()

    def post(out, p):
        o = out[0]
        cases = []
        if sym.is_inf(o):
            cases.append(('inf-only-if-infeasible', [], z3.BoolVal(False) if dom is True else z3.Not(dom)))
            return cases
        oe = sym.lift(o)
        if dom is not True:
            cases.append(('finite-only-if-feasible', [], dom))
        if T.prop == 'C04':
            return cases                  # C04: the score is +inf exactly at infeasible points (the distance formula is C08's)
        for k, (guard, lo, hi) in enumerate(pieces):
            cases.append((f'distance[piece{k}]', [guard] + ([] if dom is True else [dom]) + aux,
                          oe == S.dist_to_interval(-g, lo, hi)))
        return cases

    T.cover('requires', pre)
    for k, (guard, lo, hi) in enumerate(pieces):
        T.cover(f'spec-piece{k}', pre + [guard] + aux)
    check_contract(T, 'subdiff_distance', build, pre, post,
                   replay=dict(fn='contracts.c08:replay_subdiff', args=dict(tag=tag)))


for _c in ALL:
    _constrained = ('positive=True' in _c.tag) or _c.cls in ('IndicatorBox', 'PositiveConstraint')
    add_task(['C08', 'C04'] if _constrained else ['C08'], f'{_c.module.split(".")[-1]}:{_c.tag}.subdiff_distance', subdiff_task,
             tag=_c.tag)


def fixpoint_task(T, tag):
    """prox_1d(w - s g, s, j) == w  ==>  score == 0 ; converse for convex penalties.  Both sides are the
    REAL methods; no spec takes part."""
    import z3
    from pv import sym, symrun
    from pv.sproof import check_contract, zpre
    symrun.install()
    case = by_tag(tag)
    zv = {n: z3.Real(n) for n in case.names()}
    sp = case.spec(zv)
    w = [z3.Real('w0'), z3.Real('w1')]
    g, s = z3.Real('g'), z3.Real('s')
    pre = zpre([sp.params_ok(), s > 0, sp.step_ok(s)])
    if case.cls == 'SCAD':
        pre += [zv['alpha'] > 0]
    dom = sp.dom(w[J])
    if dom is not True:
        pre += [dom]

    def build():
        pen = case.instantiate({k: sym.SymReal(e) for k, e in zv.items()}, wrap='sym')
        wv = np.array([sym.SymReal(w[0]), sym.SymReal(w[1])], dtype=object)
        gv = np.array([sym.SymReal(g)], dtype=object)
        d = pen.subdiff_distance(wv, gv, np.array([J]))[0]
        pr = pen.prox_1d(wv[J] - sym.SymReal(s) * gv[0], sym.SymReal(s), J)
        return d, pr

    def post(out, p):
        d, pr = out
        if sym.is_inf(d):
            return [('feasible-point-has-finite-score', [], z3.BoolVal(False))]
        de, pe = sym.lift(d), sym.lift(pr)
        cases = [('fixed-point=>zero-score', [pe == w[J]], de == 0)]
        if sp.convex:
            cases.append(('zero-score=>fixed-point', [de == 0], pe == w[J]))
        return cases

    T.cover('requires', pre)
    check_contract(T, 'prox-vs-score', build, pre, post, safety=False,
                   replay=dict(fn='contracts.c08:replay_fixpoint', args=dict(tag=tag)))


for _c in PENALTIES:
    add_task(['C08'], f'{_c.module.split(".")[-1]}:{_c.tag}.prox_1d~subdiff_distance', fixpoint_task, tag=_c.tag)


def unpenalized_task(T, tag):
    """features with is_penalized() False contribute nothing to value(); penalties whose is_penalized()
    is constantly True have nothing to show"""
    import z3
    from pv import sym, symrun
    from pv.sproof import check_contract, zpre
    symrun.install()
    case = by_tag(tag)
    zv = {n: z3.Real(n) for n in case.names()}
    w0, w1, w1b = z3.Real('w0'), z3.Real('w1'), z3.Real('w1_other')

    def build():
        pen = case.instantiate({k: sym.SymReal(e) for k, e in zv.items()}, wrap='sym')
        mask = pen.is_penalized(2)
        va = pen.value(np.array([sym.SymReal(w0), sym.SymReal(w1)], dtype=object))
        vb = pen.value(np.array([sym.SymReal(w0), sym.SymReal(w1b)], dtype=object))
        return mask, va, vb

    def post(out, p):
        mask, va, vb = out
        if bool(mask[J]):
            return [('flagged-penalised', [], z3.BoolVal(True))]
        if sym.is_inf(va) or sym.is_inf(vb):
            # +inf marks an infeasible point (positivity): outside the statement about the finite value
            return [('infeasible-point', [], z3.BoolVal(True))]
        return [('unpenalised-feature-does-not-enter-value', [], sym.lift(va) == sym.lift(vb))]

    pre = zpre([case.spec(zv).params_ok()])
    check_contract(T, 'value', build, pre, post, safety=False)


for _c in PENALTIES:
    if _c.weighted:
        add_task(['C08'], f'{_c.module.split(".")[-1]}:{_c.tag}.is_penalized~value', unpenalized_task, tag=_c.tag)


# ------------------------------------------------------------------ native replay

def _fl(model, name, default=0.0):
    from .c07 import _fl as f
    return f(model, name, default)


def _numeric_sub(sp, t):
    for guard, lo, hi in sp.sub(t):
        if guard:
            return lo, hi
    return None


def replay_subdiff(args, model):
    case = by_tag(args['tag'])
    vals = {n: _fl(model, n, 1.0) for n in case.names()}
    w = np.array([_fl(model, 'w0'), _fl(model, 'w1')])
    g = np.array([_fl(model, 'g')])
    sp = _spec(case, vals)
    inputs = dict(vals, w=w.tolist(), g=g.tolist())
    try:
        pen = case.native_instance(vals)
        out = float(pen.subdiff_distance(w, g, np.array([J]))[0])
    except Exception as ex:     # noqa
        return dict(confirmed=True, detail=f'real subdiff_distance raised {type(ex).__name__}: {ex}', inputs=inputs)
    t = w[J]
    if not sp.dom(t):
        exp = float('inf')
    else:
        lo, hi = _numeric_sub(sp, t)
        exp = float(S.dist_to_interval(-g[0], lo, hi))
    bad = (out != exp) if (np.isinf(out) or np.isinf(exp)) else abs(out - exp) > 1e-9 * (1 + abs(exp))
    return dict(confirmed=bool(bad or np.isnan(out)), detail=f'subdiff_distance={out} expected={exp}', inputs=inputs)


def replay_fixpoint(args, model):
    case = by_tag(args['tag'])
    vals = {n: _fl(model, n, 1.0) for n in case.names()}
    w = np.array([_fl(model, 'w0'), _fl(model, 'w1')])
    g, s = _fl(model, 'g'), _fl(model, 's', 1.0)
    inputs = dict(vals, w=w.tolist(), g=g, s=s)
    pen = case.native_instance(vals)
    d = float(pen.subdiff_distance(w, np.array([g]), np.array([J]))[0])
    pr = float(pen.prox_1d(w[J] - s * g, s, J))
    fixed = abs(pr - w[J]) <= 1e-12 * (1 + abs(w[J]))
    zero = abs(d) <= 1e-12
    sp = case.spec(vals)
    bad = (fixed and not zero) or (sp.convex and zero and not fixed)
    return dict(confirmed=bool(bad), detail=f'prox={pr} w_j={w[J]} score={d}', inputs=inputs)


# ------------------------------------------------------------------ block penalties (Gram abstraction, [U])

BLK = 'skglm.penalties.block_separable'
BLOCK_SUB = {
    'L2_1': (['alpha'], lambda v: S.L1Spec(v['alpha'])),
    'L2_05': (['alpha'], lambda v: S.PowSpec(v['alpha'], 1, 2)),
    'BlockMCPenalty': (['alpha', 'gamma'], lambda v: S.MCPSpec(v['alpha'], v['gamma'])),
    'BlockSCAD': (['alpha', 'gamma'], lambda v: S.SCADSpec(v['alpha'], v['gamma'])),
}


def block_subdiff_task(T, cls):
    """subdiff_distance(W, grad, ws)[idx] == dist(-grad[idx], subdifferential of psi(||.||) at W[j]):
    W[j] != 0: || grad + psi'(n) W_j / n || ;  W[j] == 0: max(0, ||grad|| - psi'(0+))"""
    import z3
    from pv import sym, symrun
    from pv.symvec import Gram, SymRows
    from pv.sproof import check_contract, zpre
    symrun.install()
    params, mk = BLOCK_SUB[cls]
    zv = {n: z3.Real(n) for n in params}
    sp = mk(zv)
    gram = Gram(['W0', 'W1', 'g0'])
    n, ng = z3.Real('norm_W'), z3.Real('norm_g')
    GWW, Ggg, GgW = gram.ip('W1', 'W1'), gram.ip('g0', 'g0'), gram.ip('g0', 'W1')
    pre = zpre([sp.params_ok()]) + gram.psd_constraints() + [n >= 0, n * n == GWW, ng >= 0, ng * ng == Ggg]
    if cls == 'BlockSCAD':
        pre += [zv['alpha'] > 0]
    klass = symrun.get(BLK, cls)
    ok, why = independent_iterations(klass.subdiff_distance)
    if ok:
        T.ok('loop-shape:independent-iterations', backend='ast')
    else:
        T.failed('loop-shape:independent-iterations', why, strength='U')

    def build():
        pen = klass(**{k: sym.SymReal(e) for k, e in zv.items()})
        return pen.subdiff_distance(SymRows(gram, 'W', 2), SymRows(gram, 'g', 1), np.array([1]))

    pieces = sp.sub(n)
    aux = S.take_aux()

    def post(out, p):
        oe = sym.lift(out[0])
        if T.prop == 'C20':
            return []                     # C20: only `no IndexError on any path` (raised as a failed no-exception obligation)
        cases = []
        for k, (guard, lo, hi) in enumerate(pieces):
            gz = guard if isinstance(guard, z3.ExprRef) else z3.BoolVal(bool(guard))
            if z3.is_false(z3.simplify(z3.And(gz, n >= 0))):
                continue
            at0 = z3.simplify(z3.substitute(gz, (n, z3.RealVal(0))))
            at1 = z3.simplify(z3.substitute(gz, (n, z3.RealVal(1))))
            atm = z3.simplify(z3.substitute(gz, (n, z3.RealVal(-1))))
            if z3.is_false(at0) and z3.is_false(at1) and not z3.is_false(atm):
                continue        # a piece for negative arguments: a norm is never negative
            if z3.is_true(at0) and z3.is_false(at1):
                # the piece n == 0: ball of radius hi (None = whole space)
                exp = z3.RealVal(0) if hi is None else S.Max(0, ng - hi)
                cases.append((f'distance[zero-row,piece{k}]', [GWW == 0] + aux, oe == exp))
            else:
                if lo is None:
                    continue
                cases.append((f'distance[piece{k}]', [GWW > 0, gz] + aux,
                              z3.And(oe >= 0, oe * oe == Ggg + 2 * (lo / n) * GgW + lo * lo)))
        return cases

    T.cover('requires', pre)
    check_contract(T, 'subdiff_distance', build, pre, post,
                   replay=dict(fn='contracts.c08:replay_block_subdiff', args=dict(cls=cls)))


for _k in BLOCK_SUB:
    add_task(['C08', 'C20'], f'block_separable:{_k}.subdiff_distance', block_subdiff_task, cls=_k)


def replay_block_subdiff(args, model):
    import importlib
    from skglm.utils.jit_compilation import compiled_clone
    from .c07 import _gram_vectors
    params, mk = BLOCK_SUB[args['cls']]
    vals = {n: _fl(model, n, 1.0) for n in params}
    W0, W1, g0 = _gram_vectors(model, ['W0', 'W1', 'g0'])
    W = np.vstack([W0, W1])
    G = g0[None, :].copy()
    sp = mk(vals)
    inputs = dict(vals, W=W.tolist(), grad=G.tolist())
    try:
        pen = compiled_clone(getattr(importlib.import_module(BLK), args['cls'])(**vals))
        out = float(pen.subdiff_distance(W, G, np.array([1]))[0])
    except Exception as ex:     # noqa
        return dict(confirmed=True, detail=f'raised {type(ex).__name__}: {ex}', inputs=inputs)
    nW = float(np.linalg.norm(W1))
    if nW == 0:
        lo, hi = _numeric_sub(sp, 0.0)
        exp = 0.0 if hi is None else max(0.0, float(np.linalg.norm(g0)) - hi)
    else:
        lo, hi = _numeric_sub(sp, nW)
        exp = float(np.linalg.norm(g0 + lo * W1 / nW))
    bad = not np.isfinite(out) or abs(out - exp) > 1e-8 * (1 + abs(exp))
    return dict(confirmed=bool(bad), detail=f'subdiff_distance={out} expected={exp}', inputs=inputs)


# ------------------------------------------------------------------ value() and generalized_support() contracts

def value_task(T, tag):
    """value(w) == sum_j phi_j(w_j) of the documented penalty; with a positivity constraint (positive=True,
    PositiveConstraint) or a box, value(w) == +inf exactly at infeasible points -- this is what makes the
    `objective decreased` guard of an accepted extrapolation imply feasibility (C04)"""
    import z3
    from pv import sym, symrun
    from pv.sproof import check_contract, zpre
    symrun.install()
    case = by_tag(tag)
    zv = {n: z3.Real(n) for n in case.names()}
    w = [z3.Real('w0'), z3.Real('w1')]
    specs = [case.spec(zv, j=j) for j in range(2)]
    pre = zpre([specs[0].params_ok()])
    if case.cls == 'SCAD':
        pre += [zv['alpha'] > 0]
    feas = [s.dom(w[j]) for j, s in enumerate(specs)]
    feas = [f if f is not True else z3.BoolVal(True) for f in feas]

    def build():
        pen = case.instantiate({k: sym.SymReal(e) for k, e in zv.items()}, wrap='sym')
        return pen.value(np.array([sym.SymReal(w[0]), sym.SymReal(w[1])], dtype=object))

    def post(out, p):
        if sym.is_inf(out):
            return [('inf-only-at-infeasible-points', [], z3.Not(z3.And(*feas)))]
        return [('finite-only-at-feasible-points', [], z3.And(*feas)),
                ('==sum-of-documented-pieces', [z3.And(*feas)], sym.lift(out) == specs[0].phi(w[0]) + specs[1].phi(w[1]))]
    T.cover('requires', pre)
    check_contract(T, 'value', build, pre, post, strength='B',
                   replay=dict(fn='contracts.c08:replay_value', args=dict(tag=tag)))


for _c in PENALTIES:
    add_task(['C08', 'C04', 'C11'], f'{_c.module.split(".")[-1]}:{_c.tag}.value', value_task, strength='B', tag=_c.tag)

KINKS = {'IndicatorBox': lambda v: [0, v['alpha']]}


def gsupp_task(T, tag):
    """generalized_support(w)[j] is False exactly at the kink points of phi_j (0; 0 and alpha for the box):
    the coordinates a working set may leave out.  For every real w_j, infeasible ones included."""
    import z3
    from pv import sym, symrun
    from pv.sproof import check_contract, zpre
    symrun.install()
    case = by_tag(tag)
    zv = {n: z3.Real(n) for n in case.names()}
    w = [z3.Real('w0'), z3.Real('w1')]
    kinks = KINKS.get(case.cls, lambda v: [0])(zv)
    pre = zpre([case.spec(zv).params_ok()])

    def build():
        pen = case.instantiate({k: sym.SymReal(e) for k, e in zv.items()}, wrap='sym')
        return pen.generalized_support(np.array([sym.SymReal(w[0]), sym.SymReal(w[1])], dtype=object))

    def post(out, p):
        return [(f'[{j}]False-exactly-at-kinks', [], z3.BoolVal(bool(out[j])) == z3.And(*[w[j] != k for k in kinks]))
                for j in range(2)]
    check_contract(T, 'generalized_support', build, pre, post, strength='B', safety=False,
                   replay=dict(fn='contracts.c08:replay_gsupp', args=dict(tag=tag)))


for _c in ALL:
    add_task(['C01', 'C04', 'C05'], f'{_c.module.split(".")[-1]}:{_c.tag}.generalized_support', gsupp_task, strength='B', tag=_c.tag)


def replay_value(args, model):
    case = by_tag(args['tag'])
    vals = {n: _fl(model, n, 1.0) for n in case.names()}
    w = np.array([_fl(model, 'w0'), _fl(model, 'w1')])
    specs = [case.spec(vals, j=j) for j in range(2)]
    try:
        out = float(case.native_instance(vals).value(w))
    except Exception as ex:     # noqa
        return dict(confirmed=True, detail=f'value raised {type(ex).__name__}: {ex}', inputs=dict(vals, w=w.tolist()))
    feas = all(bool(s.dom(w[j])) for j, s in enumerate(specs))
    exp = sum(float(s.phi(w[j])) for j, s in enumerate(specs)) if feas else float('inf')
    bad = (out != exp) if (np.isinf(out) or np.isinf(exp)) else abs(out - exp) > 1e-9 * (1 + abs(exp))
    return dict(confirmed=bool(bad), detail=f'value={out} documented={exp}', inputs=dict(vals, w=w.tolist()))


def replay_gsupp(args, model):
    case = by_tag(args['tag'])
    vals = {n: _fl(model, n, 1.0) for n in case.names()}
    w = np.array([_fl(model, 'w0'), _fl(model, 'w1')])
    out = np.asarray(case.native_instance(vals).generalized_support(w))
    kinks = KINKS.get(case.cls, lambda v: [0])(vals)
    exp = np.array([all(x != k for k in kinks) for x in w])
    return dict(confirmed=bool(np.any(out != exp)), detail=f'generalized_support={out.tolist()} expected={exp.tolist()}',
                inputs=dict(vals, w=w.tolist()))

"""C12 -- classifier outputs are consistent with the fitted linear model(s).

(1) `_glm_fit`, one-vs-rest branch (structural, U): on the path `is_classif and n_classes_ > 2` the fitted attributes
    returned to the user are assembled from the per-class binary fits: coef_ from clf.coef_[0], intercept_ from
    clf.intercept_, dual_coef_ from clf.dual_coef_[0] (QuadraticSVC); binary branch: y_internal = 2*enc(y) - 1.
(2) `GeneralizedLinearEstimator.predict` (front end S on the real method, decision values symbolic):
    one row per sample; binary: classes_[1] iff score > 0; K classes: classes_[argmax_k score[i, k]].
(3) `SparseLogisticRegression.predict_proba` (front end S): every row sums to one, entries in (0, 1), and the
    probability of class k is strictly increasing in its decision value; softmax / expit by contract.
sklearn's LinearClassifierMixin.decision_function / predict, LabelEncoder and OneVsRestClassifier are assumed contracts.
"""
import ast
import os

import numpy as np

from pv.core import add_task, describe

describe('C12', level='proof', floor=8,
         explanation='one-vs-rest assembly in _glm_fit (data flow on the real AST); predict / predict_proba of the real methods on symbolic decision values',
         assumptions=['sklearn LinearClassifierMixin / LabelEncoder / OneVsRestClassifier by contract',
                      'softmax(X)_ik = exp(X_ik)/sum_j exp(X_ij), expit(x) = 1/(1+exp(-x)) by contract',
                      'predict / predict_proba for 2 samples and up to 3 classes (bounded), all real decision values'])

REPO = os.environ.get('SKGLM_REPO', '/repo')


def ovr_task(T):
    from pv.struct import load_function
    fn, tree = load_function(os.path.join(REPO, 'skglm/estimators.py'), '_glm_fit')
    # locate the `if is_classif and n_classes_ > 2:` block
    blk = None
    for n in ast.walk(fn):
        if isinstance(n, ast.If) and 'n_classes_ > 2' in ast.unparse(n.test) and 'is_classif' in ast.unparse(n.test):
            blk = n
            break
    if blk is None:
        T.failed('ovr-branch-present', 'no `if is_classif and n_classes_ > 2` branch in _glm_fit')
        return
    T.ok('ovr-branch-present', backend='ast')
    last = {}
    for st in sorted((x for x in ast.walk(blk) if isinstance(x, ast.Assign)), key=lambda x: x.lineno):
        for t in st.targets:
            if isinstance(t, ast.Attribute) and isinstance(t.value, ast.Name) and t.value.id == 'model':
                last[t.attr] = ast.unparse(st.value)
    rets = [st for st in blk.body if isinstance(st, ast.Return)]
    (T.ok if rets else T.failed)('ovr-branch-returns-model', note='' if rets else 'the branch does not return')
    for attr, need in (('coef_', ('clf.coef_[0]', 'multiclass.estimators_')), ('intercept_', ('clf.intercept_', 'multiclass.estimators_')),
                       ('dual_coef_', ('clf.dual_coef_[0]', 'multiclass.estimators_'))):
        src = last.get(attr, '<never assigned>')
        ok = all(x in src.replace(' ', '') for x in (y.replace(' ', '') for y in need))
        (T.ok if ok else T.failed)(f'ovr:{attr}-row-k-is-the-binary-model-of-class-k',
                                   note=f'last assignment on the branch: model.{attr} = {src}')
    # binary branch: internal labels are 2*enc(y)-1
    src = ast.unparse(fn)
    ok = 'enc.fit_transform(y)' in src and any(isinstance(n, ast.If) and 'n_classes_ <= 2' in ast.unparse(n.test)
                                                and any('2 * y - 1' in ast.unparse(s) for s in n.body) for n in ast.walk(fn))
    (T.ok if ok else T.failed)('binary:internal-labels-are-2*enc(y)-1', note='LabelEncoder then y = 2*y - 1 for <= 2 classes')
    ok = 'model.classes_ = enc.classes_' in src
    (T.ok if ok else T.failed)('classes_-are-the-encoder-classes', note='model.classes_ = enc.classes_ on every classification fit')


add_task('C12', 'estimators:_glm_fit[one-vs-rest]', ovr_task)


def predict_task(T, K):
    import z3
    from pv import sym, symrun
    from pv.sproof import check_contract
    symrun.install()
    import skglm.estimators as E
    from skglm.datafits import Logistic
    n = 2
    R = sym.SymReal
    if K == 1:
        sc = [[z3.Real(f's{i}')] for i in range(n)]
    else:
        sc = [[z3.Real(f's{i}_{k}') for k in range(K)] for i in range(n)]
    classes = np.array(['a', 'b', 'c'][:max(K, 2)])

    def build():
        est = E.GeneralizedLinearEstimator(datafit=Logistic())
        est.classes_ = classes
        arr = np.array([[R(sc[i][k]) for k in range(K)] for i in range(n)], dtype=object)
        est._decision_function = lambda X: arr.copy()
        return est.predict(None)

    def post(out, p):
        out = np.asarray(out)
        cs = [('one-prediction-per-sample', [], z3.BoolVal(out.shape == (n,)))]
        if out.shape != (n,):
            return cs
        for i in range(n):
            if K == 1:
                exp_b = sc[i][0] > 0
                cs.append((f'[{i}]binary:classes_[1]-iff-score>0', [], z3.BoolVal(str(out[i]) == 'b') == exp_b))
            else:
                kk = list(classes).index(str(out[i]))
                cs.append((f'[{i}]label-of-the-largest-decision-value', [],
                           z3.And(*[sc[i][kk] >= sc[i][j] for j in range(K)])))
        return cs
    check_contract(T, f'predict[K={K}]', build, [], post, strength='B', safety=False,
                   replay=dict(fn='contracts.c12:replay_predict', args=dict(K=K)))


for _K in (1, 3):
    add_task('C12', f'estimators:GeneralizedLinearEstimator.predict[K={_K}]', predict_task, strength='B', K=_K)


def proba_task(T, K):
    import z3
    from pv import sym, symrun
    from pv.sproof import check_contract
    symrun.install()
    import skglm.estimators as E
    R = sym.SymReal
    n = 1
    d = [z3.Real(f'd{k}') for k in range(K)]
    d2 = z3.Real('d0_bigger')

    def s_softmax(X, copy=True):
        X = np.asarray(X, dtype=object)
        out = np.empty(X.shape, dtype=object)
        for i in range(X.shape[0]):
            ex = [x.exp() if isinstance(x, sym.SymReal) else R(sym.lift(x)).exp() for x in X[i]]
            tot = ex[0]
            for t in ex[1:]:
                tot = tot + t
            for k in range(X.shape[1]):
                out[i, k] = ex[k] / tot
        return out

    def s_expit(x, out=None):
        a = np.asarray(x, dtype=object)
        r = np.empty(a.shape, dtype=object)
        for idx in np.ndindex(a.shape):
            v = a[idx] if isinstance(a[idx], sym.SymReal) else R(sym.lift(a[idx]))
            r[idx] = 1 / (1 + (-v).exp())
        if out is not None:
            out[...] = r
            return out
        return r

    def run(dvals):
        est = E.SparseLogisticRegression()
        est.classes_ = np.arange(max(K, 2))
        est.coef_ = np.zeros((1, 1))
        est.intercept_ = 0.
        if K == 1:
            arr = np.array([R(dvals[0])], dtype=object)
        else:
            arr = np.array([[R(v) for v in dvals]], dtype=object)
        est.decision_function = lambda X: arr.copy()
        return est.predict_proba(None)

    def build():
        old = (E.softmax, E.expit, E.check_is_fitted)
        E.softmax, E.expit, E.check_is_fitted = s_softmax, s_expit, (lambda *a, **k: None)
        try:
            return run(d), run([d2] + d[1:])
        finally:
            E.softmax, E.expit, E.check_is_fitted = old

    def post(out, p):
        P, P2 = np.asarray(out[0], dtype=object), np.asarray(out[1], dtype=object)
        ncol = max(K, 2)
        cs = [('shape', [], z3.BoolVal(P.shape == (n, ncol)))]
        if P.shape != (n, ncol):
            return cs
        L = sym.lift
        cs.append(('row-sums-to-one', [], z3.Sum([L(P[0, k]) for k in range(ncol)]) == 1))
        cs.append(('entries-in-(0,1)', [], z3.And(*[z3.And(L(P[0, k]) > 0, L(P[0, k]) < 1) for k in range(ncol)])))
        col = 1 if K == 1 else 0
        cs.append(('monotone-in-own-decision-value', [d2 > d[0]], L(P2[0, col]) > L(P[0, col])))
        return cs

    def mono(p):
        from pv.sym import EXP
        ts = list(p.exp_terms)
        ax = []
        for a in ts:
            for b in ts:
                if a.get_id() != b.get_id():
                    ax.append(z3.Implies(a < b, EXP(a) < EXP(b)))
        return ax
    check_contract(T, f'predict_proba[K={K}]', build, [], post, strength='B', safety=True, extra_axioms=mono)


for _K in (1, 3):
    add_task('C12', f'estimators:SparseLogisticRegression.predict_proba[K={_K}]', proba_task, strength='B', K=_K)


def replay_predict(args, model):
    """native: real GeneralizedLinearEstimator.predict with a decision function returning the model's values"""
    from fractions import Fraction
    import skglm.estimators as E
    from skglm.datafits import Logistic
    K, n = args['K'], 2

    def fl(nm):
        v = model.get(nm)
        return float(Fraction(v)) if v is not None else 0.3
    arr = np.array([[fl(f's{i}') if K == 1 else fl(f's{i}_{k}') for k in range(K)] for i in range(n)])
    est = E.GeneralizedLinearEstimator(datafit=Logistic())
    est.classes_ = np.array(['a', 'b', 'c'][:max(K, 2)])
    est._decision_function = lambda X: arr.copy()
    try:
        out = np.asarray(est.predict(None))
    except Exception as ex:     # noqa
        return dict(confirmed=True, detail=f'predict raised {type(ex).__name__}: {ex}', inputs=dict(scores=arr.tolist()))
    exp = [('b' if arr[i, 0] > 0 else 'a') if K == 1 else est.classes_[int(np.argmax(arr[i]))] for i in range(n)]
    bad = out.shape != (n,) or any(str(a) != str(b) for a, b in zip(out, exp))
    return dict(confirmed=bool(bad), detail=f'predict -> {out.tolist()} expected {exp}', inputs=dict(scores=arr.tolist()))

"""Function contract of estimators._glm_fit -- the one place where every estimator prepares the start point, calls the solver and
stores the fitted attributes.  The REAL function is executed (front end S) on symbolic X (object arrays of z3 reals, 3 samples x 2
features), with its callees replaced by stubs that carry their contracts:

    solver          records the arguments of solve() and returns FRESH symbolic coefficients (the contract of BaseSolver._solve
                    says nothing about Xw_init on return, so nothing may be read from it afterwards)
    compiled_clone  identity on the python instance; check_array / _validate_data / check_consistent_length: identity (trusted sklearn)
    model           a bare object carrying exactly the attributes of the scenario (fresh / previously fitted, with or without an own
                    `warm_start` attribute)

Post-conditions (each an SMT obligation, all real X; shapes enumerated -> strength B):

  C05  start point: warm (previous coef_ / intercept_ / dual_coef_) iff solver.warm_start and the model was fitted; else zeros
       (w, Xw) handed to the solver is CONSISTENT:  Xw == X_ @ w[:n_features] + fit_intercept * w[-1]
  C14  the flag read is the solver's (GeneralizedLinearEstimator has no warm_start of its own): scenarios where the model has no
       warm_start attribute or one that disagrees with the solver's
  C12  classes_ == unique labels of the y just fitted (also when a stale classes_ is present); binary targets mapped to -1/+1
  C11  coef_ / intercept_ / dual_coef_ are the solver's output; for QuadraticSVC coef_ == sum_i y_i w_i X[i, :] of the returned dual
  C16  intercept_ == returned last entry when fit_intercept else 0
  C18  X and y are not written
"""
import numpy as np

from pv.core import add_task

PROPS = ['C05', 'C14', 'C12', 'C11', 'C16', 'C18']


class _Stop(Exception):
    pass


def glm_fit_task(T, kind, fit_intercept, solver_ws, fitted, model_ws):
    import z3
    from pv import sym, symrun
    symrun.install()
    import skglm.estimators as E
    from skglm.datafits import Quadratic, Logistic, QuadraticSVC
    from skglm.penalties import L1, IndicatorBox
    R = sym.SymReal
    L = lambda v: v if isinstance(v, z3.ExprRef) else sym.lift(v)
    n, p = 3, 2
    X = np.array([[R(z3.Real(f'X{i}_{j}')) for j in range(p)] for i in range(n)], dtype=object)
    X0 = X.copy()
    if kind == 'regression':
        y = np.array([R(z3.Real(f'y{i}')) for i in range(n)], dtype=object)
        labels = None
    else:
        labels = np.array(['spam', 'ham', 'spam'])        # classes sorted: ['ham', 'spam'] -> -1 / +1
        y = labels.copy()
    y0 = y.copy()
    datafit = {'regression': Quadratic, 'logistic': Logistic, 'svc': QuadraticSVC}[kind]()
    penalty = IndicatorBox(1.) if kind == 'svc' else L1(1.)
    nw = (n if kind == 'svc' else p) + fit_intercept          # length of the solver's coefficient vector

    class Solver:
        def __init__(self):
            self.fit_intercept, self.warm_start, self.calls = fit_intercept, solver_ws, []
            self.out = np.array([R(z3.Real(f'sol{k}')) for k in range(nw)], dtype=object)

        def solve(self, X_, y_, df, pen, w, Xw):
            self.calls.append(dict(X=X_, y=y_, w=w.copy(), Xw=Xw.copy(), w_obj=w, Xw_obj=Xw))
            return self.out, np.zeros(4), R(z3.Real('kkt'))

    class Model:
        def _validate_data(self, X, y, validate_separately=None, **k):
            return X, y
    model = Model()
    prev = dict(coef=np.array([R(z3.Real(f'prev_coef{j}')) for j in range(p)], dtype=object), b=R(z3.Real('prev_b')),
                dual=np.array([R(z3.Real(f'prev_dual{i}')) for i in range(n)], dtype=object))
    if fitted:
        if kind == 'regression':
            model.coef_, model.intercept_ = prev['coef'].copy(), prev['b']
        else:
            model.coef_, model.intercept_ = prev['coef'].copy()[None, :], prev['b']
            model.classes_ = np.array([-1, 1])               # labels of an earlier fit on another target
            if kind == 'svc':
                model.dual_coef_ = prev['dual'].copy()[None, :]
        model.n_features_in_ = p
    if model_ws is not None:
        model.warm_start = model_ws
    solver = Solver()
    saved = {k: getattr(E, k) for k in ('check_array', 'check_consistent_length', 'check_classification_targets', 'compiled_clone',
                                         'issparse')}
    try:
        E.check_array = lambda a, *args, **k: a
        E.check_consistent_length = lambda *a, **k: None
        E.check_classification_targets = lambda y_: None
        E.compiled_clone = lambda obj, *a, **k: obj
        E.issparse = lambda a: False
        E._glm_fit(X, y, model, datafit, penalty, solver)
    finally:
        for k, v in saved.items():
            setattr(E, k, v)
    cfg = f'{kind},fit_intercept={fit_intercept},solver.warm_start={solver_ws},fitted={fitted},model.warm_start={model_ws}'
    if len(solver.calls) != 1:
        T.failed('solve-called-once', f'{len(solver.calls)} calls [{cfg}]')
        return
    c = solver.calls[0]
    rp = dict(fn='contracts.glmfit:replay', args=dict(kind=kind, fit_intercept=fit_intercept, solver_ws=solver_ws, fitted=fitted,
                                                      model_ws=model_ws))

    def eq(label, pairs, props_note=''):
        goal = z3.And(*[L(a) == L(b) for a, b in pairs]) if pairs else z3.BoolVal(True)
        T.prove(label, [], goal, replay=rp, strength='B', note=cfg)

    ypm = np.array([1, -1, 1]) if labels is not None else None
    Xs = c['X']                                                   # the design handed to the solver (yXT for the SVC dual)
    if kind == 'svc':
        exp_X = [[L(X0[i, j]) * int(ypm[i]) for i in range(n)] for j in range(p)]          # (n_features, n_samples)
        eq('svc:-design-handed-to-the-solver-==-(y-*-X)^T', [(Xs[j, i], exp_X[j][i]) for j in range(p) for i in range(n)])
    else:
        eq('design-handed-to-the-solver-==-X', [(Xs[i, j], X0[i, j]) for i in range(n) for j in range(p)])
    if labels is not None:
        ok = list(np.asarray(c['y'], dtype=float)) == [1., -1., 1.]
        (T.ok if ok else T.failed)('binary-targets-handed-to-the-solver-are--1/+1-in-the-order-of-classes_', note=f'{list(c["y"])} [{cfg}]',
                                   **({} if ok else dict(replay=rp)))
    # ---- start point
    warm = bool(solver_ws and fitted)
    w = c['w']
    if len(w) != nw:
        T.failed('start-point-has-the-solvers-length', f'{len(w)} != {nw} [{cfg}]', replay=rp)
        return
    if warm:
        base = prev['dual'] if kind == 'svc' else prev['coef']
        exp_w = list(base) + ([prev['b']] if fit_intercept else [])
    else:
        exp_w = [0] * nw
    eq('start-point:-warm-iff-solver.warm_start-and-fitted-(previous-solution),-else-zeros', list(zip(w, exp_w)))
    nfeat = nw - fit_intercept
    rows = Xs.shape[0]
    exp_Xw = [sum((L(Xs[i, j]) * L(w[j]) for j in range(nfeat)), z3.RealVal(0)) + (L(w[-1]) if fit_intercept else 0) for i in range(rows)]
    if len(c['Xw']) != rows:
        T.failed('model-fit-of-the-start-point-has-one-entry-per-row', f'{len(c["Xw"])} != {rows} [{cfg}]', replay=rp)
    else:
        eq('start-point-is-consistent:-Xw-==-X_-@-w[:n_features]-+-fit_intercept-*-w[-1]', list(zip(c['Xw'], exp_Xw)))
    # ---- fitted attributes
    out = solver.out
    if kind == 'regression':
        eq('coef_-==-solver-output[:n_features]', list(zip(model.coef_, out[:p])))
    elif kind == 'logistic':
        eq('coef_[0]-==-solver-output[:n_features]', list(zip(model.coef_[0], out[:p])))
    else:
        eq('svc:-dual_coef_-==-solver-output', list(zip(model.dual_coef_[0], out)))
        exp = [sum((int(ypm[i]) * L(out[i]) * L(X0[i, j]) for i in range(n)), z3.RealVal(0)) for j in range(p)]
        eq('svc:-coef_-==-sum_i-y_i-w_i-X[i,-:]-of-the-RETURNED-dual-solution', list(zip(model.coef_[0], exp)))
    b = model.intercept_
    eq('intercept_-==-solver-output[-1]-if-fit_intercept-else-0', [(b, out[-1] if fit_intercept else 0)])
    if labels is not None:
        ok = list(model.classes_) == sorted(set(labels))
        (T.ok if ok else T.failed)('classes_-==-unique-labels-of-the-target-just-fitted', note=f'{list(model.classes_)} [{cfg}]',
                                   **({} if ok else dict(replay=rp)))
    # ---- frame
    same = all(X[i, j] is X0[i, j] for i in range(n) for j in range(p)) and \
        all((y[i] is y0[i]) or (labels is not None and y[i] == y0[i]) for i in range(n))
    (T.ok if same else T.failed)('X-and-y-are-not-written', note=cfg, **({} if same else dict(replay=rp)))


for _kind in ('regression', 'logistic', 'svc'):
    for _fi in ((False,) if _kind == 'svc' else (False, True)):
        for _sws in (False, True):
            for _fit in (False, True):
                for _mws in (None, (not _sws)):
                    add_task(PROPS, f'estimators:_glm_fit[{_kind},fi={int(_fi)},solver.ws={int(_sws)},fitted={int(_fit)},model.ws={_mws}]',
                             glm_fit_task, strength='B', kind=_kind, fit_intercept=_fi, solver_ws=_sws, fitted=_fit, model_ws=_mws)


def replay(args, model):
    """native: fit twice with the real estimators and compare with the contract's expectations"""
    import warnings
    import numpy as np
    from skglm.estimators import SparseLogisticRegression, GeneralizedLinearEstimator, LinearSVC, Lasso
    from skglm.datafits import Logistic, Quadratic, QuadraticSVC
    from skglm.penalties import L1, IndicatorBox
    from skglm.solvers import AndersonCD, ProxNewton, FISTA
    rng = np.random.RandomState(0)
    X = rng.randn(40, 5)
    y = np.sign(X @ np.array([1., -1., 0, 0, .5]) + 0.3 * rng.randn(40) + 0.8)
    y[y == 0] = 1
    found = []
    with warnings.catch_warnings():
        warnings.simplefilter('ignore')
        try:
            # stale classes_ on a warm-started refit
            m = SparseLogisticRegression(alpha=0.05, warm_start=True, fit_intercept=args['fit_intercept'])
            m.fit(X, y)
            lab = np.where(y > 0, 'spam', 'ham')
            m.fit(X, lab)
            if sorted(m.classes_) != ['ham', 'spam']:
                found.append(f'classes_ after refit on ham/spam: {list(m.classes_)}')
            # warm start of GeneralizedLinearEstimator == warm start of the dedicated estimator
            a = SparseLogisticRegression(alpha=0.02, warm_start=True, fit_intercept=args['fit_intercept'], max_iter=1, max_epochs=2)
            g = GeneralizedLinearEstimator(Logistic(), L1(0.02), ProxNewton(max_iter=1, max_pn_iter=2, warm_start=True,
                                                                           fit_intercept=args['fit_intercept']))
            for _ in range(3):
                a.fit(X, y)
                g.fit(X, y)
            d = float(np.max(np.abs(a.coef_ - g.coef_)))
            if d > 1e-10:
                found.append(f'3 warm-started fits: dedicated estimator and GeneralizedLinearEstimator differ by {d:.3g}')
            # intercept after a warm-started refit above alpha_max: log-odds
            if args['fit_intercept']:
                m = SparseLogisticRegression(alpha=0.01, warm_start=True, fit_intercept=True, tol=1e-10)
                m.fit(X, y)
                m.alpha = 10.
                m.fit(X, y)
                b = float(np.ravel(m.intercept_)[0])
                lo = float(np.log(np.mean(y > 0) / np.mean(y < 0)))
                if abs(b - lo) > 1e-5:
                    found.append(f'refit above alpha_max: intercept {b:.6f}, log-odds {lo:.6f}')
            # SVC primal image with a solver that works on a copy of Xw
            svc = GeneralizedLinearEstimator(QuadraticSVC(), IndicatorBox(1.), FISTA(max_iter=200, tol=1e-8))
            svc.fit(X, y)
            prim = (svc.dual_coef_[0] * y) @ X
            d = float(np.max(np.abs(prim - svc.coef_[0])))
            if d > 1e-8:
                found.append(f'SVC coef_ differs from sum_i y_i w_i X[i,:] by {d:.3g}')
            X1 = X.copy()
            Lasso(alpha=0.1).fit(X1, X1 @ np.ones(5)) if False else None
        except Exception as ex:      # noqa
            found.append(f'scenario raised {type(ex).__name__}: {str(ex)[:200]}')
    if found:
        return dict(confirmed=True, detail='; '.join(found), inputs=dict(seed=0, n=40, p=5))
    return dict(confirmed=False, detail='native scenarios pass', inputs={})

"""C03 / C04 / C18 / C19 -- property descriptions for the kernel batteries registered in contracts/kernels.py"""
from pv.core import describe

describe('C03', level='proof', floor=5,
         explanation='per-step descent contract of the real epoch kernels (single coordinate step from any consistent state)',
         assumptions=['descent lemma for non-quadratic datafits is a trusted lemma (not proved here)',
                      'shapes enumerated (2x2, every CSC pattern); all real values'])
describe('C04', level='proof', floor=5, explanation='feasibility: prox range, kernels keep coefficients in the domain')
describe('C18', level='proof', floor=3, explanation='frame conditions of kernels')
describe('C19', level='proof', floor=3, explanation='degenerate data: zero columns, safety of divisions in kernels')
describe('C10', level='proof', floor=50, explanation='storage independence of accessors and epoch kernels (bounded shapes, every CSC pattern)')
describe('C20', level='proof', floor=2,
         explanation='caller side [U]: shape / index preconditions of every compiled kernel established at its call sites in `_solve` (opaque mode); '
                     'callee side [B]: CPython bounds checks on every symbolic run of the real kernels',
         assumptions=['kernel bodies only on enumerated shapes (bounded)', 'len(datafit.get_lipschitz(...)) == number of items is the shape contract of the datafit (values: C09)'])

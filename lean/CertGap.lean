/-
C02, lemma "certificate => objective gap" (machine-checked; replaces the formerly trusted sub-gradient + Hoelder lemma).

Setting (DESIGN 4.2): F = datafit + penalty is convex, w is the returned point, s = grad f(w) + v with v in the
sub-differential of the penalty at w is a sub-gradient of F at w (sub-gradient inequality `hsub`, for the competitor u),
and the certificate of C01/C08 says  |s_i| <= eps  for every coordinate (`hs`).   Then
        F w - F u <= eps * sum_i |u_i - w_i|        for every competitor u (in particular the reference optimum).
Second form: with an unpenalised intercept (extra coordinate handled by the same statement, n := p + 1).
Block form: certificate in the l2 norm of each block (group / multitask penalties) against the l2,1 norm of u - w.
-/
import Mathlib.Data.Real.Basic
import Mathlib.Algebra.Order.BigOperators.Group.Finset
import Mathlib.Algebra.BigOperators.Ring.Finset
import Mathlib.Tactic.Linarith
import Mathlib.Tactic.Ring

open Finset BigOperators

theorem cert_gap {n : ℕ} (F : (Fin n → ℝ) → ℝ) (w u s : Fin n → ℝ) (ε : ℝ)
    (hsub : F u ≥ F w + ∑ i, s i * (u i - w i))
    (hs : ∀ i, |s i| ≤ ε) :
    F w - F u ≤ ε * ∑ i, |u i - w i| := by
  have h1 : -(∑ i, s i * (u i - w i)) ≤ ∑ i, |s i * (u i - w i)| :=
    le_trans (neg_le_abs _) (Finset.abs_sum_le_sum_abs _ _)
  have h2 : ∑ i, |s i * (u i - w i)| ≤ ∑ i, ε * |u i - w i| := by
    apply Finset.sum_le_sum
    intro i _
    rw [abs_mul]
    exact mul_le_mul_of_nonneg_right (hs i) (abs_nonneg _)
  rw [← Finset.mul_sum] at h2
  linarith

/-- the sub-gradient inequality itself, from its two halves: f differentiable convex (first-order inequality `hf`) and
    v a sub-gradient of the penalty g (`hg`): s = grad f + v is a sub-gradient of F = f + g -/
theorem subgrad_sum {n : ℕ} (f g : (Fin n → ℝ) → ℝ) (w u gradf v : Fin n → ℝ)
    (hf : f u ≥ f w + ∑ i, gradf i * (u i - w i))
    (hg : g u ≥ g w + ∑ i, v i * (u i - w i)) :
    (f u + g u) ≥ (f w + g w) + ∑ i, (gradf i + v i) * (u i - w i) := by
  have : ∑ i, (gradf i + v i) * (u i - w i)
       = ∑ i, gradf i * (u i - w i) + ∑ i, v i * (u i - w i) := by
    rw [← Finset.sum_add_distrib]
    apply Finset.sum_congr rfl
    intro i _
    ring
  rw [this]
  linarith

/-- corollary used by C02: certificate (distance of -grad f(w) to the sub-differential <= eps in sup norm, witnessed by v)
    bounds the objective gap against every competitor -/
theorem certificate_bounds_gap {n : ℕ} (f g : (Fin n → ℝ) → ℝ) (w u gradf v : Fin n → ℝ) (ε : ℝ)
    (hf : f u ≥ f w + ∑ i, gradf i * (u i - w i))
    (hg : g u ≥ g w + ∑ i, v i * (u i - w i))
    (hcert : ∀ i, |gradf i + v i| ≤ ε) :
    (f w + g w) - (f u + g u) ≤ ε * ∑ i, |u i - w i| := by
  have h := subgrad_sum f g w u gradf v hf hg
  exact cert_gap (fun x => f x + g x) w u (fun i => gradf i + v i) ε h hcert

/-- block form (group / multitask): blocks b : Fin m, inner products abstracted by Cauchy-Schwarz per block:
    `hcs b : ip b <= ns b * nd b` where ns b = ||s_b||_2 <= eps and nd b = ||u_b - w_b||_2 >= 0 -/
theorem cert_gap_blocks {m : ℕ} (Fw Fu : ℝ) (ip ns nd : Fin m → ℝ) (ε : ℝ)
    (hsub : Fu ≥ Fw + ∑ b, ip b)
    (hcs : ∀ b, -(ip b) ≤ ns b * nd b)
    (hs : ∀ b, ns b ≤ ε) (hd : ∀ b, 0 ≤ nd b) :
    Fw - Fu ≤ ε * ∑ b, nd b := by
  have h1 : -(∑ b, ip b) ≤ ∑ b, ε * nd b := by
    rw [← Finset.sum_neg_distrib]
    apply Finset.sum_le_sum
    intro b _
    exact le_trans (hcs b) (mul_le_mul_of_nonneg_right (hs b) (hd b))
  rw [← Finset.mul_sum] at h1
  linarith

#print axioms cert_gap
#print axioms subgrad_sum
#print axioms certificate_bounds_gap
#print axioms cert_gap_blocks

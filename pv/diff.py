"""Symbolic differentiation of z3 real terms (the spec side of C06/C09): sum, product, quotient, chain rule
for exp/log, If (piecewise; valid where the pieces are C^1-glued -- continuity at the breakpoints is a separate
obligation).  Cross-checked against sympy in contracts/selftest (run by the checks)."""
import z3

from .sym import EXP, LOG

_ZERO = z3.RealVal(0)
_ONE = z3.RealVal(1)


def d(e, x):
    """d e / d x for a z3 real term e and a real constant x"""
    cache = {}

    def go(t):
        k = t.get_id()
        if k in cache:
            return cache[k]
        r = _go(t)
        cache[k] = r
        return r

    def _go(t):
        if z3.is_rational_value(t) or z3.is_int_value(t) or z3.is_algebraic_value(t):
            return _ZERO
        if z3.is_const(t):
            return _ONE if t.get_id() == x.get_id() else _ZERO
        k = t.decl().kind()
        ch = t.children()
        if k == z3.Z3_OP_ADD:
            return z3.Sum([go(c) for c in ch])
        if k == z3.Z3_OP_SUB:
            r = go(ch[0])
            for c in ch[1:]:
                r = r - go(c)
            return r
        if k == z3.Z3_OP_UMINUS:
            return -go(ch[0])
        if k == z3.Z3_OP_MUL:
            terms = []
            for i, c in enumerate(ch):
                dc = go(c)
                if z3.is_rational_value(dc) and dc.numerator_as_long() == 0:
                    continue
                others = [o for j, o in enumerate(ch) if j != i]
                terms.append(z3.Product([dc] + others) if others else dc)
            return z3.Sum(terms) if terms else _ZERO
        if k == z3.Z3_OP_DIV:
            u, v = ch
            du, dv = go(u), go(v)
            if z3.is_rational_value(dv) and dv.numerator_as_long() == 0:
                return du / v
            return (du * v - u * dv) / (v * v)
        if k == z3.Z3_OP_ITE:
            return z3.If(ch[0], go(ch[1]), go(ch[2]))
        if k == z3.Z3_OP_POWER:
            base, ex = ch
            if z3.is_rational_value(ex) and ex.denominator_as_long() == 1:
                n = ex.numerator_as_long()
                return z3.RealVal(n) * base ** (n - 1) * go(base)
            raise NotImplementedError(f'power with exponent {ex}')
        if k == z3.Z3_OP_UNINTERPRETED and t.decl().eq(EXP):
            return t * go(ch[0])
        if k == z3.Z3_OP_UNINTERPRETED and t.decl().eq(LOG):
            return go(ch[0]) / ch[0]
        if k == z3.Z3_OP_TO_REAL:
            return _ZERO
        raise NotImplementedError(f'differentiation of {t.decl()}')

    return z3.simplify(go(e))


def exp_terms_of(e):
    """arguments of every exp(.) occurring in e (for the axiom instances)"""
    out, seen, stack = [], set(), [e]
    while stack:
        t = stack.pop()
        if t.get_id() in seen:
            continue
        seen.add(t.get_id())
        if z3.is_app(t):
            if t.decl().kind() == z3.Z3_OP_UNINTERPRETED and t.num_args() == 1 and t.decl().eq(EXP):
                out.append(t.arg(0))
            stack.extend(t.children())
    return out


def log_terms_of(e):
    out, seen, stack = [], set(), [e]
    while stack:
        t = stack.pop()
        if t.get_id() in seen:
            continue
        seen.add(t.get_id())
        if z3.is_app(t):
            if t.decl().kind() == z3.Z3_OP_UNINTERPRETED and t.num_args() == 1 and t.decl().eq(LOG):
                out.append(t.arg(0))
            stack.extend(t.children())
    return out

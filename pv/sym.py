"""Front end S, part 1: symbolic scalars that the REAL skglm functions are executed on.

`SymReal` wraps a z3 real term.  The real function objects of /repo (imported with
NUMBA_DISABLE_JIT=1, i.e. numba's own switch that makes @njit the identity) are *called* with
these values inside numpy object arrays; every comparison forks (CrossHair-style re-execution
over a decision list).  Nothing of skglm is copied or re-typed.

Rules that matter (measured on prototypes, see DESIGN.md 2.1):
  * only divisions / sqrt / exp / log are let-bound, polynomials stay inline;
  * a fork whose other side is infeasible is not a decision;
  * bool(SymReal) forks on != 0;
  * no __array_priority__; numpy must broadcast elementwise over object arrays.
"""
import itertools
import math
from fractions import Fraction

import numpy as np
import z3


class Unsupported(Exception):
    """construct outside the reach of front end S (reported as undecided, never as violation)"""


class PathLimit(Exception):
    pass


_cnt = itertools.count()
EXP = z3.Function('exp', z3.RealSort(), z3.RealSort())
LOG = z3.Function('log', z3.RealSort(), z3.RealSort())


def fresh(hint='t'):
    return z3.Real(f'{hint}!{next(_cnt)}')


class Ctx:
    def __init__(self, pre=(), feas_cache=None, feas_timeout=1500):
        self.decisions = []
        self.pos = 0
        self.pre = list(pre)         # preconditions (assumed on every path)
        self.pc = []                 # path condition
        self.defs = []               # defining constraints of let-bound terms
        self.safety = []             # (label, pc snapshot, defs snapshot, goal)
        self.feas_cache = feas_cache if feas_cache is not None else {}
        self.feas_timeout = feas_timeout
        self.nsolver = 0
        self.exp_terms = []
        self.log_terms = []
        self.nonneg = set()          # ids of terms known >= 0 (sqrt let-variables): abs() is the identity
        self.notes = []              # per-path annotations (e.g. stubbed calls)
        self.memo = {}               # common sub-expressions: same sqrt / quotient -> same let variable

    def hyps(self):
        return self.pre + self.pc + self.defs


CTX = None


def ctx():
    if CTX is None:
        raise RuntimeError('symbolic value used outside explore()')
    return CTX


def float_to_fraction(v):
    """a float constant of the source is read as the simplest rational within 1e-15 rel. (assumption:
    machine constants such as 2./3. or 1e-12 denote their mathematical value)"""
    v = float(v)
    if v != v or v in (float('inf'), float('-inf')):
        raise Unsupported('arithmetic on a non-finite constant')
    if v == int(v) and abs(v) < 1e15:
        return Fraction(int(v))
    exact = Fraction(v)
    for k in (2, 4, 6, 9, 12, 15, 18):
        f = exact.limit_denominator(10 ** k)
        if abs(f - exact) <= abs(exact) * Fraction(1, 10 ** 15):
            return f
    return exact


def lift(v):
    """python / numpy / Sym value -> z3 real term"""
    if isinstance(v, SymReal):
        return v.e
    if isinstance(v, (bool, np.bool_)):
        return z3.RealVal(int(v))
    if isinstance(v, (int, np.integer)):
        return z3.RealVal(int(v))
    if isinstance(v, (float, np.floating)):
        f = float_to_fraction(v)
        return z3.RealVal(str(f))
    if isinstance(v, Fraction):
        return z3.RealVal(str(v))
    if isinstance(v, np.ndarray) and v.ndim == 0:
        return lift(v.item())
    raise TypeError(type(v))


def is_num(e):
    return z3.is_rational_value(e) or z3.is_int_value(e)


def num_value(e):
    return Fraction(e.numerator_as_long(), e.denominator_as_long())


def _feasible(c, extra):
    key = (tuple(x.get_id() for x in c.pre + c.pc), extra.get_id())
    if key in c.feas_cache:
        return c.feas_cache[key]
    so = z3.Solver()
    so.set('timeout', c.feas_timeout)
    so.add(*c.pre, *c.pc, *c.defs, extra)
    c.nsolver += 1
    r = so.check() != z3.unsat      # unknown counts as feasible (sound: more paths)
    c.feas_cache[key] = r
    return r


class SymBool:
    __slots__ = ('e',)

    def __init__(self, e):
        self.e = e

    def __bool__(self):
        c = ctx()
        e = z3.simplify(self.e)
        if z3.is_true(e):
            return True
        if z3.is_false(e):
            return False
        ft = _feasible(c, e)
        ff = _feasible(c, z3.Not(e))
        if ft and ff:
            if c.pos < len(c.decisions):
                d = c.decisions[c.pos]
            else:
                d = True
                c.decisions.append(True)
            c.pos += 1
        elif ft or ff:
            d = ft
        else:
            # the current path itself is infeasible (only after an `unknown`): any side
            d = True
        c.pc.append(e if d else z3.Not(e))
        return d

    def __and__(self, o):
        return SymBool(z3.And(self.e, _lb(o)))
    __rand__ = __and__

    def __or__(self, o):
        return SymBool(z3.Or(self.e, _lb(o)))
    __ror__ = __or__

    def __invert__(self):
        return SymBool(z3.Not(self.e))


def _lb(o):
    if isinstance(o, SymBool):
        return o.e
    if isinstance(o, (bool, np.bool_)):
        return z3.BoolVal(bool(o))
    raise TypeError(type(o))


def _div(num, den, label='div'):
    """num/den with den symbolic: let-bound quotient + a recorded safety obligation den != 0"""
    c = ctx()
    if is_num(den):
        d = num_value(den)
        if d == 0:
            c.safety.append((label, list(c.pc), list(c.defs), z3.BoolVal(False)))
            raise ZeroDivisionError('division by the constant zero on this path')
        return z3.simplify(num * z3.RealVal(str(1 / d)))
    key = ('div', num.get_id(), den.get_id())
    if key in c.memo:
        return c.memo[key]
    c.safety.append((label, list(c.pc), list(c.defs), den != 0))
    c.pc.append(den != 0)
    if is_num(num) and num_value(num) == 0:
        return z3.RealVal(0)
    q = fresh('q')
    c.defs.append(q * den == num)
    c.memo[key] = q
    return q


def sym_sqrt(x):
    c = ctx()
    e = lift(x)
    if is_num(e):
        v = num_value(e)
        if v < 0:
            c.safety.append(('sqrt-domain', list(c.pc), list(c.defs), z3.BoolVal(False)))
            raise ValueError('sqrt of a negative constant')
        r = Fraction(math.isqrt(v.numerator), math.isqrt(v.denominator))
        if r * r == v:
            return SymReal(z3.RealVal(str(r)))
    e = z3.simplify(e)
    # one root per radicand, whatever order its terms were summed in (sum-of-monomials normal form, sorted)
    key = ('sqrt', z3.simplify(e, som=True, sort_sums=True).get_id())
    if key in c.memo:
        return SymReal(c.memo[key])
    c.safety.append(('sqrt-domain', list(c.pc), list(c.defs), e >= 0))
    c.pc.append(e >= 0)
    r = fresh('sqrt')
    c.defs.append(z3.And(r >= 0, r * r == e))
    c.memo[key] = r
    c.nonneg.add(r.get_id())
    return SymReal(r)


def sym_root(x, q):
    """x ** (1/q) for x >= 0 (numpy/numba give nan for a negative base): let-bound r >= 0, r^q == x"""
    if q == 2:
        return sym_sqrt(x)
    c = ctx()
    e = z3.simplify(lift(x))
    key = ('root', q, e.get_id())
    if key in c.memo:
        return SymReal(c.memo[key])
    c.safety.append(('root-domain', list(c.pc), list(c.defs), e >= 0))
    c.pc.append(e >= 0)
    r = fresh(f'root{q}')
    p = r
    for _ in range(q - 1):
        p = p * r
    c.defs.append(z3.And(r >= 0, p == e))
    c.memo[key] = r
    c.nonneg.add(r.get_id())
    return SymReal(r)


def sym_exp(x):
    c = ctx()
    e = lift(x)
    r = EXP(e)
    c.defs.append(r > 0)
    if is_num(e) and num_value(e) == 0:
        return SymReal(z3.RealVal(1))
    c.exp_terms.append(e)
    return SymReal(r)


def sym_log(x):
    c = ctx()
    e = lift(x)
    if is_num(e) and num_value(e) == 1:
        return SymReal(z3.RealVal(0))
    c.safety.append(('log-domain', list(c.pc), list(c.defs), e > 0))
    c.pc.append(e > 0)
    c.log_terms.append(e)
    return SymReal(LOG(e))


class SymReal:
    __slots__ = ('e',)

    def __init__(self, e):
        self.e = e

    # ---- arithmetic
    def _b(self, o, f):
        try:
            return SymReal(f(self.e, lift(o)))
        except TypeError:
            return NotImplemented

    def __add__(self, o): return self._b(o, lambda a, b: a + b)
    __radd__ = __add__
    def __sub__(self, o): return self._b(o, lambda a, b: a - b)
    def __rsub__(self, o): return self._b(o, lambda a, b: b - a)
    def __mul__(self, o): return self._b(o, lambda a, b: a * b)
    __rmul__ = __mul__

    def __truediv__(self, o):
        try:
            return SymReal(_div(self.e, lift(o)))
        except TypeError:
            return NotImplemented

    def __rtruediv__(self, o):
        try:
            return SymReal(_div(lift(o), self.e))
        except TypeError:
            return NotImplemented

    def __neg__(self): return SymReal(-self.e)
    def __pos__(self): return self

    def __pow__(self, o):
        if isinstance(o, SymReal):
            if is_num(z3.simplify(o.e)):
                o = float(num_value(z3.simplify(o.e)))
            else:
                raise Unsupported('symbolic exponent')
        f = float_to_fraction(o)
        if f.denominator == 1:
            n = int(f)
            if n == 0:
                return SymReal(z3.RealVal(1))
            base = self.e
            r = base
            for _ in range(abs(n) - 1):
                r = r * base
            if n < 0:
                return SymReal(_div(z3.RealVal(1), r))
            return SymReal(r)
        if f == Fraction(1, 2):
            return sym_sqrt(self)
        if f.denominator in (2, 3, 4) and abs(f.numerator) <= 4:
            root = sym_root(self, f.denominator)
            return root ** int(f.numerator)
        raise Unsupported(f'fractional power {o}')

    def __rpow__(self, o):
        raise Unsupported('symbolic exponent')

    def __abs__(self):
        if CTX is not None and self.e.get_id() in CTX.nonneg:
            return self
        if is_num(self.e):
            return SymReal(z3.RealVal(str(abs(num_value(self.e)))))
        return SymReal(z3.If(self.e >= 0, self.e, -self.e))

    # ---- comparisons
    def _c(self, o, f):
        if isinstance(o, (float, np.floating)) and o in (float('inf'), float('-inf')):
            # a real compared with +-inf: decided without the solver (every real is < +inf and > -inf)
            return bool(f(0.0, float(o)))
        try:
            return SymBool(f(self.e, lift(o)))
        except TypeError:
            return NotImplemented

    def __lt__(self, o): return self._c(o, lambda a, b: a < b)
    def __le__(self, o): return self._c(o, lambda a, b: a <= b)
    def __gt__(self, o): return self._c(o, lambda a, b: a > b)
    def __ge__(self, o): return self._c(o, lambda a, b: a >= b)
    def __eq__(self, o): return self._c(o, lambda a, b: a == b)
    def __ne__(self, o): return self._c(o, lambda a, b: a != b)
    __hash__ = None

    def __bool__(self):
        return bool(SymBool(self.e != 0))

    def __float__(self):
        e = z3.simplify(self.e)
        if is_num(e):
            return float(num_value(e))
        raise Unsupported('float() of a symbolic value')

    def __int__(self):
        raise Unsupported('int() of a symbolic value')
    __index__ = __int__

    # ---- names numpy's object-dtype ufunc loops dispatch to
    def sqrt(self): return sym_sqrt(self)
    def exp(self): return sym_exp(self)
    def log(self): return sym_log(self)
    def log1p(self): return sym_log(self + 1)
    def conjugate(self): return self
    conj = conjugate

    @property
    def real(self): return self

    @property
    def imag(self): return 0

    def cos(self): raise Unsupported('cos')
    def arccos(self): raise Unsupported('arccos')
    def sin(self): raise Unsupported('sin')
    def cbrt(self): raise Unsupported('cbrt')
    def expm1(self): return sym_exp(self) - 1

    def __repr__(self):
        return f'Sym({self.e})'


# ------------------------------------------------------------------ exploration

class Path:
    __slots__ = ('pc', 'defs', 'out', 'safety', 'exc', 'decisions', 'exp_terms', 'log_terms', 'notes')


def explore(fn, pre=(), max_paths=20000, feas_timeout=1500):
    """run `fn` (which builds symbolic inputs and calls real code) on every feasible decision list.

    returns list[Path]; an exception raised by the real code ends that path and is recorded in
    `exc` (type name, message) -- the contract decides what it means."""
    global CTX
    stack = [[]]
    paths = []
    cache = {}
    while stack:
        dec = stack.pop()
        c = Ctx(pre=pre, feas_cache=cache, feas_timeout=feas_timeout)
        c.decisions = list(dec)
        CTX = c
        p = Path()
        p.exc = None
        p.out = None
        try:
            p.out = fn()
        except Unsupported:
            CTX = None
            raise
        except (ZeroDivisionError, IndexError, ValueError, FloatingPointError, TypeError,
                AssertionError, KeyError, AttributeError) as ex:
            p.exc = (type(ex).__name__, str(ex)[:300])
        finally:
            CTX = None
        for i in range(len(dec), len(c.decisions)):
            stack.append(c.decisions[:i] + [False])
        p.pc, p.defs, p.safety = list(c.pc), list(c.defs), list(c.safety)
        p.decisions = list(c.decisions)
        p.exp_terms, p.log_terms = list(c.exp_terms), list(c.log_terms)
        p.notes = list(c.notes)
        paths.append(p)
        if len(paths) > max_paths:
            raise PathLimit(f'more than {max_paths} paths')
    return paths


# ------------------------------------------------------------------ helpers for contracts

def R(name):
    return SymReal(z3.Real(name))


def vec(name, n):
    return np.array([SymReal(z3.Real(f'{name}{i}')) for i in range(n)], dtype=object)


def mat(name, n, m):
    return np.array([[SymReal(z3.Real(f'{name}{i}_{j}')) for j in range(m)] for i in range(n)],
                    dtype=object)


def term(v):
    """z3 term of an output value (Sym or number)"""
    return lift(v)


def terms(a):
    return [lift(x) for x in np.asarray(a, dtype=object).ravel()]


def is_inf(v):
    return isinstance(v, (float, np.floating)) and v == float('inf')


def zabs(e):
    return z3.If(e >= 0, e, -e)


def zmax(a, b):
    return z3.If(a >= b, a, b)


def zmin(a, b):
    return z3.If(a <= b, a, b)


def exp_axioms(terms_):
    """instances of the exp axioms on the terms that occur (positivity is added at creation)"""
    ax = []
    ts = []
    seen = set()
    for t in terms_:
        if t.get_id() not in seen:
            seen.add(t.get_id())
            ts.append(t)
    for t in ts:
        ax.append(EXP(t) * EXP(-t) == 1)
        ax.append(EXP(-t) > 0)
        ax.append(EXP(t) >= 1 + t)
        # consequence of the first two (stated so that sigmoid forms match without search): e^-t / (1 + e^-t) == 1 / (1 + e^t)
        ax.append(EXP(-t) / (1 + EXP(-t)) == 1 / (1 + EXP(t)))
    return ax


def log_axioms(terms_):
    ax = []
    for t in terms_:
        ax.append(z3.Implies(t > 0, EXP(LOG(t)) == t))
        ax.append(z3.Implies(t > 0, LOG(t) <= t - 1))
    return ax

"""Contract checking with front end S: explore the real function, then one SMT query per path x case."""
import re

import z3

from . import sym
from .sym import explore, exp_axioms, log_axioms


def zpre(fmls):
    """normalise a precondition list (python bools allowed) to z3 formulas"""
    return [f if isinstance(f, z3.ExprRef) else z3.BoolVal(bool(f)) for f in fmls]


def _dedupe(fmls):
    seen, out = set(), []
    for f in fmls:
        i = f.get_id()
        if i not in seen:
            seen.add(i)
            out.append(f)
    return out


def check_contract(T, label, build, pre, post, replay=None, strength=None, extra_axioms=None,
                   exc_ok=None, safety=True, max_paths=20000, timeout_ms=None, safety_label='safe',
                   path_filter=None, shard=None):
    """
    build()        -> out ; builds symbolic inputs itself (or closes over them) and calls REAL code
    pre            -> list of z3 formulas (the `requires`)
    post(out, p)   -> list of (case, extra_hyps, goal) ; the `ensures`, split in cases
    replay         -> dict(fn='contracts.mod:func', args={...}) ; the model is added on failure
    exc_ok(p)      -> True if an exception on path p is what the contract demands
    Each (path, case) is one obligation `label/case@p<k>`; safety obligations (denominator != 0,
    sqrt/log domain) are `label/safe:<kind>#<n>@p<k>`.
    returns number of feasible paths
    """
    paths = explore(build, pre=pre, max_paths=max_paths)
    n_feasible = 0
    seen_safety = set()
    for k, p in enumerate(paths):
        if path_filter is not None and not path_filter(p):
            continue
        if shard is not None and k % shard[1] != shard[0]:
            continue
        ax = exp_axioms(p.exp_terms) + log_axioms(p.log_terms)
        if extra_axioms:
            ax = ax + list(extra_axioms(p))
        base = list(pre) + p.pc + p.defs + ax
        if p.exc is not None:
            if exc_ok is not None and exc_ok(p):
                T.ok(f'{label}/raises-as-specified@p{k}', note=str(p.exc))
                continue
            # an exception on a feasible path is a failed safety obligation
            from .backends import check_sat
            st, m, s, b = check_sat(list(pre) + p.pc + p.defs, timeout_ms or T.budget_ms)
            if st == 'unsat':
                continue
            # the failing safety goal (if any) pins down the division that raised
            T.record(f'{label}/no-exception@p{k}', 'failed' if st == 'sat' else 'unknown', strength,
                     s, b, m, _mk_replay(replay, m), note=f'{p.exc[0]}: {p.exc[1]}')
            continue
        n_feasible += 1
        if safety:
            for n, (lab, spc, sdefs, goal) in enumerate(p.safety):
                key = (tuple(x.get_id() for x in spc), goal.get_id())
                if key in seen_safety:
                    continue
                seen_safety.add(key)
                st, m = T.prove(f'{label}/{safety_label}:{lab}#{n}@p{k}', list(pre) + spc + sdefs, goal,
                                strength=strength, timeout_ms=timeout_ms)
                if st == 'failed':
                    T.results[-1]['replay'] = _mk_replay(replay, m)
        for item in post(p.out, p):
            case, extra, goal = item[:3]
            opts = item[3] if len(item) > 3 else {}
            # a case may name the subset of the preconditions it needs (fewer irrelevant variables)
            hy = (list(opts['pre']) + p.pc + p.defs + ax) if 'pre' in opts else base
            from .diff import exp_terms_of, log_terms_of
            gt = z3.And(goal, *extra) if extra else goal
            et, lt = exp_terms_of(gt), log_terms_of(gt)
            if et or lt:
                hy = hy + exp_axioms(et) + log_axioms(lt)
            st, m = T.prove(f'{label}/{case}@p{k}', hy + list(extra), goal, strength=strength,
                            timeout_ms=timeout_ms)
            if st == 'failed':
                T.results[-1]['replay'] = _mk_replay(replay, m)
    if shard is not None and shard[0] != 0:
        return n_feasible
    if n_feasible == 0 and shard is None:
        T.record(f'{label}/cover:paths', 'vacuous', 'cover', note='no feasible path')
    else:
        T.record(f'{label}/cover:paths', 'covered', 'cover', note=f'{n_feasible} paths')
    return n_feasible


def _mk_replay(replay, model):
    if replay is None:
        return None
    r = dict(replay)
    r['model'] = {k: v for k, v in (model or {}).items() if '!' not in k}
    return r


_PATH = re.compile(r'@p\d+$')


def strip_path(name):
    return _PATH.sub('', name)

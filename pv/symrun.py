"""Front end S, part 2: import the REAL skglm modules uncompiled and let them build object arrays.

Must be imported before numba/skglm in the process (sets NUMBA_DISABLE_JIT=1: numba's own
documented switch; @njit becomes the identity and jitclass returns the plain Python class).
The module-global name `np` inside each skglm module is replaced by a proxy whose array
constructors return object arrays; every other attribute is numpy's own.  No skglm source is
touched and nothing is copied.
"""
import os
os.environ['NUMBA_DISABLE_JIT'] = '1'
import importlib
import pkgutil
import sys

import numpy as _np

from .sym import SymReal, SymBool, Unsupported

REPO = os.environ.get('SKGLM_REPO', '/repo')


def _dt(dt):
    """numba type objects used as dtype arguments (np.ones(n, bool_)) -> the numpy dtype numba means"""
    if dt is not None and type(dt).__module__.startswith('numba'):
        from numba.np.numpy_support import as_dtype
        return as_dtype(dt)
    return dt


def _isnum(dt):
    if dt is None:
        return True
    try:
        d = _np.dtype(_dt(dt))
    except TypeError:
        return False
    return _np.issubdtype(d, _np.floating) or d == object


def _zeros(shape, dtype=None, **k):
    if _isnum(dtype):
        a = _np.empty(shape, dtype=object)
        a[...] = 0.
        return a
    return _np.zeros(shape, dtype=_dt(dtype))


def _ones(shape, dtype=None, **k):
    if _isnum(dtype):
        a = _np.empty(shape, dtype=object)
        a[...] = 1.
        return a
    return _np.ones(shape, dtype=_dt(dtype))


def _zeros_like(a, dtype=None, **k):
    if type(a).__name__ == 'SymVec':
        return a.gram.zero()
    a = _np.asarray(a)
    dt = dtype if dtype is not None else a.dtype
    return _zeros(a.shape, dt)


def _full_like(a, v, dtype=None, **k):
    a = _np.asarray(a)
    dt = dtype if dtype is not None else a.dtype
    r = _zeros(a.shape, dt)
    r[...] = v
    return r


def _full(shape, v, dtype=None, **k):
    r = _zeros(shape, dtype if dtype is not None else (object if isinstance(v, SymReal) else None))
    r[...] = v
    return r


def _has_sym(a):
    a = _np.asarray(a)
    return a.dtype == object


def _argext(a, better):
    a = _np.asarray(a)
    flat = a.ravel()
    if flat.shape[0] == 0:
        raise ValueError('attempt to get argmin/argmax of an empty sequence')
    best = 0
    for i in range(1, flat.shape[0]):
        if bool(better(flat[i], flat[best])):
            best = i
    return best


def _argmin(a, *args, **k):
    if _has_sym(a) and not args and not k:
        return _argext(a, lambda x, y: x < y)
    return _np.argmin(a, *args, **k)


def _argmax(a, *args, **k):
    if _has_sym(a) and not args and not k:
        return _argext(a, lambda x, y: x > y)
    return _np.argmax(a, *args, **k)


def _array(obj, dtype=None, **k):
    if dtype is not None and _isnum(dtype):
        a = _np.array(obj, dtype=object, **k)
        return a
    return _np.array(obj, dtype=dtype, **k)


def _sqrt(x):
    if isinstance(x, SymReal):
        return x.sqrt()
    return _np.sqrt(x)


def _exp(x):
    if isinstance(x, SymReal):
        return x.exp()
    return _np.exp(x)


def _log(x):
    if isinstance(x, SymReal):
        return x.log()
    return _np.log(x)


def _log1p(x):
    if isinstance(x, SymReal):
        return x.log1p()
    return _np.log1p(x)


def _isinf(x):
    a = _np.asarray(x)
    if a.dtype == object:
        return _np.array([isinstance(v, float) and v in (float('inf'), float('-inf'))
                          for v in a.ravel()]).reshape(a.shape)
    return _np.isinf(x)


def _cumsum(a, *args, **k):
    a = _np.asarray(a)
    if a.dtype == object and a.ndim == 1 and not args and not k:
        out = _np.empty(a.shape, dtype=object)
        acc = 0.
        for i in range(a.shape[0]):
            acc = acc + a[i]
            out[i] = acc
        return out
    return _np.cumsum(a, *args, **k)


def _array_unify(obj, dtype=None, **k):
    """numba unifies the element type of a list built from int and float scalars to float64
    (prox_SCAD: x_1 = max(0, <float>) is a float under numba, an int 0 under CPython)"""
    if dtype is None and isinstance(obj, (list, tuple)) and obj and all(
            isinstance(v, (int, float, SymReal)) and not isinstance(v, bool) for v in obj):
        a = _np.empty(len(obj), dtype=object)
        for i, v in enumerate(obj):
            a[i] = float(v) if isinstance(v, int) else v
        return a
    return _array(obj, dtype, **k)


def _finfo(dt):
    """machine limits of the float type numba would use: object arrays of symbolic reals stand for float64"""
    try:
        return _np.finfo(dt)
    except (ValueError, TypeError):
        return _np.finfo(_np.float64)


class NPProxy:
    def __init__(self, unify=False):
        if unify:
            self.array = _array_unify

    zeros = staticmethod(_zeros)
    empty = staticmethod(_zeros)
    ones = staticmethod(_ones)
    zeros_like = staticmethod(_zeros_like)
    empty_like = staticmethod(_zeros_like)
    full_like = staticmethod(_full_like)
    full = staticmethod(_full)
    argmin = staticmethod(_argmin)
    argmax = staticmethod(_argmax)
    array = staticmethod(_array)
    sqrt = staticmethod(_sqrt)
    exp = staticmethod(_exp)
    log = staticmethod(_log)
    log1p = staticmethod(_log1p)
    isinf = staticmethod(_isinf)
    cumsum = staticmethod(_cumsum)
    finfo = staticmethod(_finfo)

    def __getattr__(self, n):
        return getattr(_np, n)


_installed = False
MODULES = {}


def install():
    """import every skglm module from /repo uncompiled and swap its `np` global for the proxy"""
    global _installed
    if _installed:
        return MODULES
    if REPO not in sys.path:
        sys.path.insert(0, REPO)
    import skglm
    root = os.path.realpath(os.path.dirname(skglm.__file__))
    if not root.startswith(os.path.realpath(REPO)):
        raise RuntimeError(f'skglm imported from {root}, expected under {REPO}')
    proxy = NPProxy()
    for m in list(pkgutil.walk_packages(skglm.__path__, 'skglm.')):
        if '.tests' in m.name or 'plot' in m.name:
            continue
        mod = importlib.import_module(m.name)
        MODULES[m.name] = mod
        for tn, nt in (('bool_', _np.bool_), ('float64', _np.float64), ('int64', _np.int64), ('int32', _np.int32),
                       ('float32', _np.float32)):
            # numba type objects used as dtypes (x.astype(bool_)): the numpy dtype numba means
            v = getattr(mod, tn, None)
            if v is not None and type(v).__module__.startswith('numba'):
                setattr(mod, tn, nt)
        if getattr(mod, 'np', None) is _np:
            mod.np = NPProxy(unify=True) if m.name == 'skglm.utils.prox_funcs' else proxy
    _installed = True
    return MODULES


def get(modname, qual):
    """real function/class object by module and qualified name"""
    install()
    obj = importlib.import_module(modname)
    for part in qual.split('.'):
        obj = getattr(obj, part)
    return obj

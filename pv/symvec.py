"""Gram abstraction (DESIGN 2.4): dimension-free symbolic vectors.

A `SymVec` is a linear combination  sum_k c_k * g_k  of abstract generator vectors g_k of an
unspecified inner-product space; the coefficients are SymReal/numbers.  Norms and inner products
reduce to the Gram entries G[k,l] = <g_k, g_l>, which are symbolic reals constrained to be a
positive semidefinite matrix (every PSD matrix is the Gram matrix of vectors in dimension >= its
rank, and conversely -- the trusted lemma).  numpy functions reach it through the
__array_function__ protocol, so the REAL skglm code (`norm(x)`, `np.zeros_like(x)`, `np.any(x)`,
scalar * x ...) runs on it unmodified, for every dimension at once.
"""
import itertools

import numpy as np
import z3

from . import sym
from .sym import SymReal, Unsupported


class Gram:
    """a family of generators with symbolic Gram matrix"""

    def __init__(self, names):
        self.names = list(names)
        self.G = {}
        for i, a in enumerate(self.names):
            for b in self.names[i:]:
                e = z3.Real(f'G_{a}_{b}')
                self.G[(a, b)] = e
                self.G[(b, a)] = e

    def gen(self, name):
        return SymVec(self, {name: 1})

    def zero(self):
        return SymVec(self, {})

    def ip(self, a, b):
        return self.G[(a, b)]

    def psd_constraints(self):
        """all principal minors >= 0 (necessary and sufficient for PSD); n <= 3 supported"""
        n = len(self.names)
        if n > 3:
            raise Unsupported('Gram families of more than 3 generators')
        cons = []
        for k in range(1, n + 1):
            for sub in itertools.combinations(self.names, k):
                cons.append(_det([[self.G[(a, b)] for b in sub] for a in sub]) >= 0)
        return cons


def _det(m):
    n = len(m)
    if n == 1:
        return m[0][0]
    if n == 2:
        return m[0][0] * m[1][1] - m[0][1] * m[1][0]
    return (m[0][0] * (m[1][1] * m[2][2] - m[1][2] * m[2][1])
            - m[0][1] * (m[1][0] * m[2][2] - m[1][2] * m[2][0])
            + m[0][2] * (m[1][0] * m[2][1] - m[1][1] * m[2][0]))


def _z(c):
    return sym.lift(c)


class SymVec:
    __array_ufunc__ = None      # numpy scalars defer to our reflected operators
    dtype = np.dtype('float64')
    ndim = 1

    def __init__(self, gram, coefs):
        self.gram = gram
        self.coefs = {k: v for k, v in coefs.items()}

    # ---- linear structure
    def _lin(self, other, sa, sb):
        if not isinstance(other, SymVec):
            if isinstance(other, (int, float)) and other == 0:
                other = self.gram.zero()
            else:
                return NotImplemented
        out = {}
        for k in set(self.coefs) | set(other.coefs):
            out[k] = SymReal(sa * _z(self.coefs.get(k, 0)) + sb * _z(other.coefs.get(k, 0)))
        return SymVec(self.gram, out)

    def __add__(self, o): return self._lin(o, 1, 1)
    __radd__ = __add__
    def __sub__(self, o): return self._lin(o, 1, -1)
    def __rsub__(self, o): return self._lin(o, -1, 1)
    def __neg__(self): return SymVec(self.gram, {k: -v for k, v in self.coefs.items()})

    def _scale(self, c):
        if isinstance(c, SymVec) or isinstance(c, np.ndarray):
            return NotImplemented
        try:
            ce = _z(c)
        except TypeError:
            return NotImplemented
        return SymVec(self.gram, {k: SymReal(ce * _z(v)) for k, v in self.coefs.items()})

    def __mul__(self, c): return self._scale(c)
    __rmul__ = __mul__

    def __truediv__(self, c):
        if isinstance(c, (SymVec, np.ndarray)):
            return NotImplemented
        c = c if isinstance(c, SymReal) else SymReal(_z(c))
        return SymVec(self.gram, {k: (v if isinstance(v, SymReal) else SymReal(_z(v))) / c
                                  for k, v in self.coefs.items()})

    # ---- inner products
    def sqnorm(self):
        e = z3.RealVal(0)
        ks = list(self.coefs)
        for a in ks:
            for b in ks:
                e = e + _z(self.coefs[a]) * _z(self.coefs[b]) * self.gram.ip(a, b)
        return SymReal(z3.simplify(e))

    def dot(self, o):
        e = z3.RealVal(0)
        for a in self.coefs:
            for b in o.coefs:
                e = e + _z(self.coefs[a]) * _z(o.coefs[b]) * self.gram.ip(a, b)
        return SymReal(z3.simplify(e))

    def norm(self):
        return sym.sym_sqrt(self.sqnorm())

    def copy(self):
        return SymVec(self.gram, dict(self.coefs))

    def __bool__(self):
        raise Unsupported('truth value of an abstract vector')

    def __getitem__(self, i):
        raise Unsupported('component access on an abstract (dimension-free) vector')

    def __len__(self):
        raise Unsupported('len() of an abstract (dimension-free) vector')

    # comparisons are componentwise: outside the abstraction
    def __lt__(self, o): raise Unsupported('componentwise comparison of an abstract vector')
    __gt__ = __le__ = __ge__ = __lt__

    def __array_function__(self, func, types, args, kwargs):
        name = func.__name__
        if func is np.linalg.norm:
            if len(args) > 1 or any(k != 'ord' or v not in (None, 2) for k, v in kwargs.items()):
                if not (len(args) == 2 and args[1] in (None, 2)):
                    raise Unsupported(f'norm with arguments {args[1:]} {kwargs}')
            return self.norm()
        if name in ('zeros_like', 'empty_like'):
            return self.gram.zero()
        if name == 'any':
            return bool(self.sqnorm() != 0)
        if name == 'copy':
            return self.copy()
        raise Unsupported(f'numpy function {name} on an abstract vector')


class SymRows:
    """a matrix whose rows are abstract vectors (W[j], W[j, :], grad[idx, :])"""
    dtype = np.dtype('float64')
    ndim = 2

    def __init__(self, gram, prefix, n_rows):
        self.gram, self.prefix, self.n_rows = gram, prefix, n_rows

    @property
    def shape(self):
        raise Unsupported('shape of an abstract matrix')

    def __getitem__(self, idx):
        if isinstance(idx, tuple):
            if len(idx) != 2 or idx[1] != slice(None):
                raise Unsupported(f'abstract matrix indexed with {idx}')
            idx = idx[0]
        i = int(idx)
        if not -self.n_rows <= i < self.n_rows:
            raise IndexError(f'row {i} out of range for {self.prefix} with {self.n_rows} rows')
        return self.gram.gen(f'{self.prefix}{i % self.n_rows}')

    def __array_function__(self, func, types, args, kwargs):
        raise Unsupported(f'numpy function {func.__name__} on an abstract matrix')

"""Task registry, obligation bookkeeping, runner, evidence, known findings, replay dispatch."""
import hashlib
import re
import importlib
import json
import multiprocessing as mp
import os
import subprocess
import sys
import time
import traceback

ROOT = os.path.dirname(os.path.dirname(os.path.abspath(__file__)))
REPO = os.environ.get('SKGLM_REPO', '/repo')

# ----------------------------------------------------------------------------- registry

TASKS = []          # list of Task


class Task:
    def __init__(self, prop, name, fn, strength, tier, kwargs):
        self.prop, self.name, self.fn = prop, name, fn
        self.strength, self.tier, self.kwargs = strength, tier, kwargs
        self.module = fn.__module__


def task(prop, name, strength='U', tier='quick', **kwargs):
    """register `fn(T, **kwargs)`; prop may be a list (the obligations then serve several properties)"""
    def deco(fn):
        for p in ([prop] if isinstance(prop, str) else prop):
            TASKS.append(Task(p, name, fn, strength, tier, kwargs))
        return fn
    return deco


def add_task(prop, task_name, fn, strength="U", tier="quick", **kwargs):
    for p in ([prop] if isinstance(prop, str) else prop):
        TASKS.append(Task(p, task_name, fn, strength, tier, kwargs))


class T:
    """handed to every task: collects obligation results"""

    def __init__(self, tsk, tier, budget_ms):
        self.task = tsk
        self.prop = tsk.prop
        self.tier = tier
        self.budget_ms = budget_ms
        self.results = []
        self.covers = 0
        self.solver_name = None
        self.no_intercept = False

    def full(self, label):
        return f'{self.prop}/{self.task.name}/{label}'

    def record(self, label, status, strength=None, secs=0.0, backend='', model=None, replay=None,
               note=''):
        self.results.append(dict(
            name=self.full(label), prop=self.prop, task=self.task.name, status=status,
            strength=strength or self.task.strength, secs=round(secs, 4), backend=backend,
            model=model, replay=replay, note=note))

    def prove(self, label, hyps, goal, replay=None, strength=None, timeout_ms=None, note=''):
        from . import backends
        hyps = list(hyps) + auto_axioms(list(hyps) + [goal])
        st, m, s, b = backends.prove(hyps, goal, timeout_ms or self.budget_ms)
        self.record(label, st, strength, s, b, m, replay if st == 'failed' else None, note)
        return st, m

    def cover(self, label, fmls, timeout_ms=None):
        """reachability guard: `fmls` must be satisfiable, else the contract is vacuous"""
        from . import backends
        st, m, s, b = backends.check_sat(fmls, timeout_ms or self.budget_ms, want_model=False)
        self.covers += 1
        if st == 'unsat':
            self.record('cover:' + label, 'vacuous', 'cover', s, b, note='hypotheses unsatisfiable')
        elif st == 'unknown':
            self.record('cover:' + label, 'cover-unknown', 'cover', s, b)
        else:
            self.record('cover:' + label, 'covered', 'cover', s, b)
        return st

    def failed(self, label, note, replay=None, model=None, strength=None):
        self.record(label, 'failed', strength, 0.0, 'exec', model, replay, note)

    def ok(self, label, note='', strength=None, backend='exec'):
        self.record(label, 'proved', strength, 0.0, backend, note=note)


def auto_axioms(fmls):
    """instances of the exp/log axioms for every exp(.)/log(.) term occurring in `fmls`"""
    import z3
    from .diff import exp_terms_of, log_terms_of
    from .sym import exp_axioms, log_axioms, EXP
    big = z3.And(*fmls) if len(fmls) > 1 else fmls[0]
    et, lt = exp_terms_of(big), log_terms_of(big)
    ax = []
    if et:
        ax += [EXP(t) > 0 for t in et] + exp_axioms(et)
    if lt:
        ax += log_axioms(lt)
        # exp(log t) introduces new exp terms: positivity only
    return ax


# ----------------------------------------------------------------------------- worker

def _run_task(args):
    idx, tier, budget_ms = args
    tsk = TASKS[idx]
    t = T(tsk, tier, budget_ms)
    t0 = time.time()
    try:
        tsk.fn(t, **tsk.kwargs)
    except Exception as ex:      # noqa
        from .sym import Unsupported, PathLimit
        kind = 'unsupported' if isinstance(ex, (Unsupported, PathLimit)) else 'error'
        t.record('task', kind, note=f'{type(ex).__name__}: {ex}\n' + traceback.format_exc()[-1500:])
    return idx, t.results, time.time() - t0


def load_contracts(prop):
    """import the contract modules that may register tasks for `prop`"""
    cdir = os.path.join(ROOT, 'contracts')
    for fn in sorted(os.listdir(cdir)):
        if fn.endswith('.py') and not fn.startswith('_'):
            importlib.import_module('contracts.' + fn[:-3])


# ----------------------------------------------------------------------------- known findings

def load_known():
    known, fixed = [], []
    p = os.path.join(ROOT, 'known_findings.txt')
    if os.path.exists(p):
        for line in open(p):
            line = line.strip()
            if line.startswith('finding:'):
                body = line[len('finding:'):].strip()
                head, _, what = body.partition('::')
                kv = dict(x.split('=', 1) for x in head.split() if '=' in x)
                known.append(dict(prop=kv.get('property'), obligation=kv.get('obligation'), what=what.strip()))
            elif line.startswith('fixed:'):
                fixed.append(line)
    return known, fixed


def match_known(res, known):
    """a finding is keyed by the obligation name without its path / pattern suffixes"""
    fam = _family(res['name'])
    for k in known:
        ob = k['obligation'] or ''
        if k['prop'] == res['prop'] and (ob == fam or (ob.endswith('*') and fam.startswith(ob[:-1]))):
            return k
    return None


# ----------------------------------------------------------------------------- replay

def run_replay(path, timeout=900):
    """native (JIT on) replay in a fresh interpreter; returns (confirmed: bool|None, text)"""
    env = dict(os.environ)
    env.pop('NUMBA_DISABLE_JIT', None)
    env['PYTHONPATH'] = ROOT + os.pathsep + env.get('PYTHONPATH', '')
    try:
        p = subprocess.run([sys.executable, '-m', 'pv.replay', path], capture_output=True, text=True,
                           timeout=timeout, env=env, cwd=ROOT)
    except subprocess.TimeoutExpired:
        return None, 'replay timed out'
    txt = (p.stdout + p.stderr)[-4000:]
    if p.returncode == 10:
        return True, txt
    if p.returncode == 0:
        return False, txt
    return None, txt


# ----------------------------------------------------------------------------- main driver

LEVELS = {}     # prop -> dict(level=..., floor=..., assumptions=[...], trusted=[...], functions=[...])


def describe(prop, **kw):
    LEVELS.setdefault(prop, {}).update(kw)


COMMON_ASSUMPTIONS = [
    'floats are treated as mathematical reals (no rounding, overflow, NaN); float constants of the source denote the nearest simple rational',
    'ints are mathematical integers',
    'numba compiles the same source with Python semantics (error_model=python); fastmath re-association not modelled',
    'numpy object-dtype loops compute the same function as the float loops (numpy itself executes them)',
    'z3 5.1 / cvc5 are sound',
]


def run_check(prop, tier='quick', seed=0, jobs=None, only=None):
    t_start = time.time()
    load_contracts(prop)
    # quick < thorough < extended (extended: tasks that did not complete within budget; in no MANIFEST command)
    allowed = {'quick': ('quick',), 'thorough': ('quick', 'thorough'), 'extended': ('quick', 'thorough', 'extended')}[tier]
    idxs = [i for i, t in enumerate(TASKS) if t.prop == prop and t.tier in allowed]
    if only:
        idxs = [i for i in idxs if only in TASKS[i].name]
    if not idxs:
        print(f'no tasks registered for {prop}', file=sys.stderr)
        return 3
    budget_ms = int(os.environ.get('VERIF_QUERY_MS', 20000 if tier == 'quick' else 120000))
    jobs = jobs or int(os.environ.get('VERIF_JOBS', '16'))
    results = []
    task_secs = {}
    ctx = mp.get_context('fork')
    # longest first is unknown here; just go in registration order with chunksize 1
    with ctx.Pool(min(jobs, len(idxs))) as pool:
        for idx, res, secs in pool.imap_unordered(_run_task, [(i, tier, budget_ms) for i in idxs], chunksize=1):
            results.extend(res)
            task_secs[TASKS[idx].name] = round(secs, 2)
    return finish(prop, tier, seed, results, task_secs, t_start, partial=bool(only) or os.path.realpath(REPO) != '/repo')


def finish(prop, tier, seed, results, task_secs, t_start, partial=False):
    known, fixed = load_known()
    os.makedirs(os.path.join(ROOT, 'replays'), exist_ok=True)
    os.makedirs(os.path.join(ROOT, 'evidence'), exist_ok=True)
    info = LEVELS.get(prop, {})
    obl = [r for r in results if r['strength'] in ('U',)]
    bnd = [r for r in results if r['strength'] in ('B', 'N')]
    covers = [r for r in results if r['strength'] == 'cover']
    failed = [r for r in results if r['status'] == 'failed']
    undecided = [r for r in results if r['status'] in ('unknown', 'unsupported', 'cover-unknown')]
    errors = [r for r in results if r['status'] == 'error']
    vacuous = [r for r in results if r['status'] == 'vacuous']

    violations, known_hits = [], []
    for r in failed:
        k = match_known(r, known)
        if k:
            known_hits.append((r, k))
            continue
        violations.append(r)

    lines = []
    vio_records = []
    # one replay per failed obligation *family* (name without path / csc-pattern suffix), at most MAX_REPLAY
    # families are replayed natively (in parallel); the other failures of a family share its replay file
    from concurrent.futures import ThreadPoolExecutor
    fam = {}
    for r in violations:
        fam.setdefault(_family(r['name']), []).append(r)
    jobs = []
    head = _repo_head()
    for k, (fname, rs) in enumerate(sorted(fam.items())):
        rs.sort(key=lambda r: (r['replay'] is None, len(str(r['model']))))
        r = rs[0]
        h = hashlib.sha1(fname.encode()).hexdigest()[:10]
        path = os.path.join(ROOT, 'replays', f'{prop}_{h}.json')
        rec = dict(property=prop, obligation=r['name'], solver_output=dict(status='sat', backend=r['backend'], model=r['model']),
                   replay=r['replay'], note=r['note'], repo_head=head,
                   also_failed=[dict(obligation=x['name'], model=x['model'], note=x['note'][:300]) for x in rs[1:40]])
        json.dump(rec, open(path, 'w'), indent=1, default=str)
        jobs.append((fname, rs, path, rec))
    max_replay = int(os.environ.get('VERIF_MAX_REPLAY', '12'))

    def _do(job):
        fname, rs, path, rec = job
        if rec['replay']:
            return run_replay(path)
        return None, 'no replay harness for this obligation'
    with ThreadPoolExecutor(8) as ex:
        outs = list(ex.map(_do, jobs[:max_replay])) + [(None, 'not replayed (replay budget)')] * max(0, len(jobs) - max_replay)
    for (fname, rs, path, rec), (confirmed, txt) in zip(jobs, outs):
        rec['replay_result'] = dict(confirmed=confirmed, output=txt)
        json.dump(rec, open(path, 'w'), indent=1, default=str)
        tail = '' if confirmed else ' no-failing-input-found'
        lines.append(f'VIOLATION property={prop} replay={path}{tail}')
        vio_records.append(dict(obligation=fname, failed=len(rs), replay=path, confirmed=bool(confirmed)))
        r = rs[0]
        print(f'  failed obligation: {r["name"]} (+{len(rs) - 1} of the same family)  model={_short(r["model"])}  {r["note"][:200]}')
    kf_seen = set()
    for r, k in known_hits:
        if k['obligation'] not in kf_seen:
            kf_seen.add(k['obligation'])
            n_same = sum(1 for r2, k2 in known_hits if k2['obligation'] == k['obligation'])
            print(f'KNOWN-FINDING: property={prop} {k["obligation"]} ({n_same} obligations) :: {k["what"]}')
    for ln in lines:
        print(ln)

    n_obl, n_dis = len(obl), sum(1 for r in obl if r['status'] == 'proved')
    floor = info.get('floor', 1)
    code = 0
    if violations:
        code = 1
    elif errors:
        code = 3
    elif undecided or vacuous:
        code = 2
    elif n_obl + len(bnd) < floor and not partial:
        print(f'vacuity guard: only {n_obl + len(bnd)} obligations generated, floor is {floor}', file=sys.stderr)
        code = 3
    for r in undecided + errors + vacuous:
        print(f'  {r["status"].upper()}: {r["name"]} {r["note"][:600]}', file=sys.stderr)

    # ---- evidence
    backends_used = {}
    for r in results:
        backends_used[r['backend']] = backends_used.get(r['backend'], 0) + 1
    samples = [dict(obligation=r['name'], status=r['status'], backend=r['backend'], secs=r['secs'])
               for r in (obl[:4] + bnd[:3] + failed[:3])]
    kf_obl = [r for r, _ in known_hits]
    level = info.get('level', 'proof')
    if level == 'proof' and n_obl == 0:
        level = 'other'     # nothing unbounded was proved by this run: do not call it a proof
    cov = dict(
        obligations=n_obl - sum(1 for r in kf_obl if r['strength'] == 'U'),
        discharged=n_dis,
        bounded_checks=len(bnd),
        bounded_passed=sum(1 for r in bnd if r['status'] == 'proved'),
        covers=len(covers), covers_reached=sum(1 for r in covers if r['status'] == 'covered'),
        known_findings=[r['name'] for r in kf_obl],
        undecided=[r['name'] for r in undecided],
        checker_cmd=f'./check {prop} --tier {tier}',
        trusted_base=info.get('trusted', []) + ['pv/sym.py + pv/symrun.py (front end S)', 'pv/backends.py', 'z3 5.1.0', 'cvc5 1.0.3 (fallback)'],
        functions_under_contract=info.get('functions', sorted({r['task'] for r in results})),
        backends=backends_used,
        solver_time_s=round(sum(r['secs'] for r in results), 2),
        max_query_s=max([r['secs'] for r in results] or [0]),
        task_wall_s=task_secs,
        evaluations=len(results),
        distinct_nontrivial=len({r['name'] for r in results if r['strength'] != 'cover'}),
        rule='one evaluation = one named obligation (path x case) sent to an SMT back end or decided by execution; distinct = distinct obligation names',
        samples=samples,
        slowest=[(r['name'], r['secs'], r['backend']) for r in sorted(results, key=lambda r: -r['secs'])[:6]],
        explanation=(info.get('explanation', '') + ' | U = unbounded obligations (counted in obligations/discharged); B = bounded-in-shape symbolic obligations (all real values, shapes enumerated; counted in bounded_checks only)'),
        violations=vio_records,
    )
    ev = dict(property_id=prop, tier=tier, seed=int(seed), level=level, coverage=cov,
              assumptions=COMMON_ASSUMPTIONS + info.get('assumptions', []),
              wall_s=round(time.time() - t_start, 2), violations=len(violations))
    # a filtered run (--only) or a run against a scratch copy of the repository is not evidence for the property
    evdir = os.path.join(ROOT, 'evidence', '_partial') if partial else os.path.join(ROOT, 'evidence')
    os.makedirs(evdir, exist_ok=True)
    json.dump(ev, open(os.path.join(evdir, f'{prop}.json'), 'w'), indent=1, default=str)
    if os.environ.get('VERIF_DUMP'):
        json.dump(results, open(os.environ['VERIF_DUMP'], 'w'), indent=0, default=str)
    print(f'{prop} [{tier}]: obligations={n_obl} discharged={n_dis} bounded={len(bnd)} '
          f'covers={len(covers)} known={len(known_hits)} violations={len(violations)} '
          f'undecided={len(undecided)} errors={len(errors)} wall={time.time() - t_start:.1f}s exit={code}')
    return code


_FAM = [re.compile(r'@p\d+$'), re.compile(r'csc=\d+'), re.compile(r'#\d+')]


def _family(name):
    for rx in _FAM:
        name = rx.sub('', name)
    return name


def _short(m):
    if not m:
        return ''
    items = [(k, v) for k, v in m.items() if '!' not in k]
    return '{' + ', '.join(f'{k}={v}' for k, v in sorted(items)[:12]) + '}'


def _repo_head():
    try:
        return subprocess.run(['git', '-C', REPO, 'rev-parse', 'HEAD'], capture_output=True, text=True).stdout.strip()
    except Exception:
        return ''

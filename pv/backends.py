"""SMT back ends: z3 5.x API first, then z3 nlsat tactic, then /usr/bin/cvc5 on the SMT-LIB dump."""
import os
import re
import subprocess
import tempfile
import time
from fractions import Fraction

import z3


def _model_to_dict(m):
    out = {}
    for d in m.decls():
        if d.arity() != 0:
            continue
        v = m[d]
        try:
            if z3.is_rational_value(v):
                out[d.name()] = str(Fraction(v.numerator_as_long(), v.denominator_as_long()))
            elif z3.is_algebraic_value(v):
                out[d.name()] = v.approx(20).as_decimal(20).rstrip('?')
            elif z3.is_int_value(v):
                out[d.name()] = str(v.as_long())
            elif z3.is_true(v) or z3.is_false(v):
                out[d.name()] = str(z3.is_true(v))
            else:
                out[d.name()] = str(v)
        except Exception:
            out[d.name()] = str(v)
    return out


def _has_uf(fmls):
    seen = set()
    stack = list(fmls)
    while stack:
        e = stack.pop()
        if e.get_id() in seen:
            continue
        seen.add(e.get_id())
        if z3.is_app(e):
            d = e.decl()
            if d.kind() == z3.Z3_OP_UNINTERPRETED and d.arity() > 0:
                return True
            stack.extend(e.children())
        elif z3.is_quantifier(e):
            return True
    return False


def cvc5_check(smt2, timeout_ms):
    """returns 'unsat' | 'sat' | 'unknown' using the cvc5 binary on an SMT-LIB2 dump"""
    exe = '/usr/bin/cvc5'
    if not os.path.exists(exe):
        return 'unknown'
    with tempfile.NamedTemporaryFile('w', suffix='.smt2', delete=False, dir=os.environ.get('TMPDIR')) as f:
        f.write('(set-logic ALL)\n' + smt2)
        path = f.name
    try:
        p = subprocess.run([exe, '--lang=smt2', f'--tlimit={int(timeout_ms)}', path],
                           capture_output=True, text=True, timeout=timeout_ms / 1000 + 10)
        out = p.stdout.strip().split('\n')[0] if p.stdout.strip() else 'unknown'
        return out if out in ('sat', 'unsat') else 'unknown'
    except Exception:
        return 'unknown'
    finally:
        try:
            os.unlink(path)
        except OSError:
            pass


def abstract_uf(fmls):
    """replace every application of a unary uninterpreted real function (exp, log) by a fresh real variable.
    Sound for UNSAT answers only (congruence between syntactically different but equal arguments is lost,
    which can only make the abstraction easier to satisfy)."""
    table = {}

    def walk(t, memo):
        k = t.get_id()
        if k in memo:
            return memo[k]
        if z3.is_app(t) and t.num_args() > 0:
            ch = [walk(c, memo) for c in t.children()]
            if t.decl().kind() == z3.Z3_OP_UNINTERPRETED:
                key = (t.decl().name(), ch[0].get_id()) if len(ch) == 1 else None
                if key is None:
                    raise ValueError('n-ary UF')
                if key not in table:
                    table[key] = z3.Real(f'uf!{t.decl().name()}!{len(table)}')
                r = table[key]
            else:
                r = t.decl()(*ch)
        else:
            r = t
        memo[k] = r
        return r
    memo = {}
    return [walk(z3.simplify(f), memo) for f in fmls]


def check_sat(fmls, timeout_ms=10000, want_model=True, use_cvc5=True, first_only=False):
    """decide satisfiability of the conjunction `fmls`.
    returns (status in {'unsat','sat','unknown'}, model dict or None, seconds, backend)"""
    t0 = time.time()
    if _has_uf(fmls) and not any(z3.is_quantifier(f) for f in fmls):
        try:
            ab = abstract_uf(fmls)
            t = z3.TryFor(z3.Then('simplify', 'purify-arith', 'propagate-values', 'solve-eqs', 'qfnra-nlsat'),
                          int(timeout_ms) // 2)
            s2 = t.solver()
            s2.add(*ab)
            if s2.check() == z3.unsat:
                return 'unsat', None, time.time() - t0, 'z3-nlsat(uf-abstracted)'
        except (z3.Z3Exception, ValueError):
            pass
    so = z3.Solver()
    so.add(*fmls)
    if os.environ.get('VERIF_NLSAT_FIRST', '1') == '1' and not _has_uf(fmls):
        try:
            t = z3.TryFor(z3.Then('simplify', 'purify-arith', 'propagate-values', 'solve-eqs', 'qfnra-nlsat'),
                          int(timeout_ms) // 2)
            s2 = t.solver()
            s2.add(*fmls)
            r2 = s2.check()
            if r2 == z3.unsat:
                return 'unsat', None, time.time() - t0, 'z3-nlsat'
            if r2 == z3.sat:
                return 'sat', (_model_to_dict(s2.model()) if want_model else None), time.time() - t0, 'z3-nlsat'
        except z3.Z3Exception:
            pass
    so.set('timeout', int(timeout_ms))
    r = so.check()
    if r == z3.unsat:
        return 'unsat', None, time.time() - t0, 'z3'
    if r == z3.sat:
        return 'sat', (_model_to_dict(so.model()) if want_model else None), time.time() - t0, 'z3'
    if first_only:
        return 'unknown', None, time.time() - t0, 'z3'
    # second chance: nlsat tactic when there are no uninterpreted functions
    if not _has_uf(fmls):
        try:
            t = z3.TryFor(z3.Then('simplify', 'purify-arith', 'propagate-values', 'solve-eqs', 'qfnra-nlsat'),
                          int(timeout_ms))
            s2 = t.solver()
            s2.add(*fmls)
            r2 = s2.check()
            if r2 == z3.unsat:
                return 'unsat', None, time.time() - t0, 'z3-nlsat'
            if r2 == z3.sat:
                return 'sat', (_model_to_dict(s2.model()) if want_model else None), time.time() - t0, 'z3-nlsat'
        except z3.Z3Exception:
            pass
    if use_cvc5:
        r3 = cvc5_check(so.to_smt2(), timeout_ms)
        if r3 == 'unsat':
            return 'unsat', None, time.time() - t0, 'cvc5'
        # a cvc5 `sat` has no model we can replay here: leave it undecided unless z3 can confirm
    return 'unknown', None, time.time() - t0, 'z3+cvc5'


_FRESH = re.compile(r'!(\d+)$')


def _fresh_vars(f, cache={}):
    """{name: index} of the let-bound / fresh constants (z3 names `base!N`) occurring in f"""
    key = f.get_id()
    if key in cache:
        return cache[key]
    out, seen, todo = {}, set(), [f]
    while todo:
        t = todo.pop()
        if t.get_id() in seen:
            continue
        seen.add(t.get_id())
        if z3.is_const(t) and t.decl().kind() == z3.Z3_OP_UNINTERPRETED:
            m = _FRESH.search(t.decl().name())
            if m:
                out[t.decl().name()] = int(m.group(1))
        else:
            todo.extend(t.children())
    if len(cache) > 20000:
        cache.clear()
    cache[key] = out
    return out


def slice_hyps(hyps, goal):
    """cone of influence over let-bound variables: a hypothesis is `about` its newest fresh variable (a let definition introduces
    it, a path condition tests it); keep the hypotheses without fresh variables and those about a variable the goal (transitively)
    depends on.  Dropping hypotheses is sound for validity; the caller falls back to the full set when the slice does not prove."""
    S = set(_fresh_vars(goal))
    info = [(h, _fresh_vars(h)) for h in hyps]
    keep = [not fv for _, fv in info]
    changed = True
    while changed:
        changed = False
        for i, (h, fv) in enumerate(info):
            if keep[i] or not fv:
                continue
            newest = max(fv, key=fv.get)
            if newest in S:
                keep[i] = True
                changed = True
                S |= set(fv)
    return [h for (h, _), k in zip(info, keep) if k]


def prove(hyps, goal, timeout_ms=10000):
    """(hyps => goal) valid?  returns (status in {'proved','failed','unknown'}, model, secs, backend)
    order: all hypotheses with a short budget (most obligations take milliseconds); if undecided, the cone-of-influence slice of
    the hypotheses (sound: fewer hypotheses); if still undecided, all hypotheses with the full budget"""
    hyps = list(hyps)
    neg = [z3.Not(goal)]
    quick = min(4000, timeout_ms)
    st, m, s, b = check_sat(hyps + neg, quick, first_only=quick < timeout_ms)
    spent = s
    if st != 'unknown' or quick >= timeout_ms:
        return {'unsat': 'proved', 'sat': 'failed', 'unknown': 'unknown'}[st], m, spent, b
    if any(_fresh_vars(h) for h in hyps):
        sl = slice_hyps(hyps, goal)
        if len(sl) < len(hyps):
            st, m, s, b = check_sat(sl + neg, max(2000, timeout_ms // 4))
            spent += s
            if st == 'unsat':
                return 'proved', m, spent, b + '(sliced)'
    st, m, s, b = check_sat(hyps + neg, timeout_ms)
    return {'unsat': 'proved', 'sat': 'failed', 'unknown': 'unknown'}[st], m, s + spent, b

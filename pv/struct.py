"""Front end V, opaque mode: a forward symbolic interpreter over the AST of the REAL Python-level
orchestrators of skglm (`*._solve`, `*.path`, `_glm_fit`, `fit`).

The function text is re-read from /repo on every run (ast.parse of the real file; decorators, docstrings and
print/verbose blocks are the only things dropped).  Data arrays are opaque heap locations with a *version*
(a write, or a call whose contract `modifies` it, creates a new version); calls are interpreted by CONTRACT
(pv/../contracts/solver_calls.py): pure calls become uninterpreted functions of argument versions constrained
by the callee's `ensures`.  Loops are cut: zero iterations, `break` out of one arbitrary iteration, or the end
of an arbitrary iteration taken as the last one; the syntactic write set is havocked; candidate invariants
supplied by the client are kept only if inductive (Houdini).  Branch feasibility is decided on the
quantifier-free path condition; quantified contract facts are kept as Python closures and instantiated at
the goal's index terms.
"""
import ast
import copy
import itertools

import z3

V = z3.DeclareSort('Ver')
I, R, B = z3.IntSort(), z3.RealSort(), z3.BoolSort()
selr = z3.Function('selr', V, I, R)
seli = z3.Function('seli', V, I, I)
selb = z3.Function('selb', V, I, B)
alen = z3.Function('alen', V, I)
DOT = z3.Function('DOT', V, V, R)
_cnt = itertools.count()


class Unsupported(Exception):
    pass


def fresh(sort, hint='t'):
    return z3.Const(f'{hint}!{next(_cnt)}', sort)


STR_CODES = {}


def strcode(s):
    return STR_CODES.setdefault(s, len(STR_CODES) + 1)


# ----------------------------------------------------------------------------- values

class SInt:
    def __init__(self, t): self.t = t if z3.is_expr(t) else z3.IntVal(int(t))


class SReal:
    def __init__(self, t): self.t = t if z3.is_expr(t) else z3.RealVal(t)


class SBool:
    def __init__(self, t): self.t = t if z3.is_expr(t) else z3.BoolVal(bool(t))


class SStr:
    def __init__(self, code, text=None):
        self.t = code if z3.is_expr(code) else z3.IntVal(code)
        self.text = text


class SNone:
    pass


class SInf:
    pass


class STuple:
    def __init__(self, items): self.items = list(items)


class SList:
    """ghost python list: state.lists[loc] = dict(n=<z3 Int>, last=<value or None>, base=...)"""
    def __init__(self, loc): self.loc = loc


class SArr:
    """reference to a heap array, optionally a basic-slice view [lo, hi)"""
    def __init__(self, loc, lo=None, hi=None, kind='r', ndim=1):
        self.loc, self.lo, self.hi, self.kind, self.ndim = loc, lo, hi, kind, ndim


class SObj:
    """opaque object (X, y, datafit, penalty, self, modules ...)"""
    def __init__(self, name, attrs=None, t=None):
        self.name, self.attrs = name, (attrs if attrs is not None else {})
        self.t = t


class SFunc:
    def __init__(self, node, closure): self.node, self.closure = node, closure


class SOpaque:
    """result of an unknown pure computation"""
    def __init__(self, why=''): self.why = why


# ----------------------------------------------------------------------------- state

class State:
    def __init__(self):
        self.env, self.heap, self.pc = {}, {}, []
        self.qfacts = []          # closures k -> z3 formula (universally quantified contract facts)
        self.events = []          # ordered trace: dicts
        self.lists = {}
        self.ghost = {}           # client-defined ghost state (must be copy()-able values)
        self.taint = []           # reasons why this path is outside the supported subset

    def clone(self):
        c = State()
        c.env, c.heap, c.pc = dict(self.env), dict(self.heap), list(self.pc)
        c.qfacts, c.events = list(self.qfacts), list(self.events)
        c.lists = {k: dict(v) for k, v in self.lists.items()}
        c.ghost = {k: (v.copy() if hasattr(v, 'copy') else v) for k, v in self.ghost.items()}
        c.taint = list(self.taint)
        return c

    def newloc(self, hint='a', n=None):
        loc = f'{hint}#{next(_cnt)}'
        self.heap[loc] = fresh(V, hint)
        if n is not None:
            self.pc.append(alen(self.heap[loc]) == n)
        return loc

    def bump(self, loc, why='', node=None, keep_len=True, **info):
        old = self.heap[loc]
        new = fresh(V, loc.split('#')[0])
        self.heap[loc] = new
        if keep_len:
            self.pc.append(alen(new) == alen(old))
        ev = dict(kind='write', loc=loc, old=old, new=new, why=why, line=getattr(node, 'lineno', None))
        ev.update(info)
        self.events.append(ev)
        return old, new

    def ver(self, arr):
        return self.heap[arr.loc]

    def vlen(self, arr):
        n = alen(self.heap[arr.loc])
        lo = arr.lo if arr.lo is not None else z3.IntVal(0)
        hi = arr.hi if arr.hi is not None else n
        return z3.simplify(hi - lo)

    def lo(self, arr):
        return arr.lo if arr.lo is not None else z3.IntVal(0)


def to_real(v):
    if isinstance(v, SReal): return v.t
    if isinstance(v, SInt): return z3.ToReal(v.t)
    if isinstance(v, SBool): return z3.If(v.t, z3.RealVal(1), z3.RealVal(0))
    raise Unsupported(f'real value expected, got {type(v).__name__}')


def to_int(v):
    if isinstance(v, SInt): return v.t
    if isinstance(v, SBool): return z3.If(v.t, z3.IntVal(1), z3.IntVal(0))
    raise Unsupported(f'int value expected, got {type(v).__name__}')


def to_bool(v):
    if isinstance(v, SBool): return v.t
    if isinstance(v, SInt): return v.t != 0
    if isinstance(v, SReal): return v.t != 0
    if isinstance(v, SNone): return z3.BoolVal(False)
    if isinstance(v, (SObj, SArr, SFunc)): return z3.BoolVal(True)
    if isinstance(v, SOpaque): return fresh(B, 'opaque_truth')
    raise Unsupported(f'truth value of {type(v).__name__}')


def dotted(n):
    if isinstance(n, ast.Name): return n.id
    if isinstance(n, ast.Attribute): return dotted(n.value) + '.' + n.attr
    if isinstance(n, ast.Call): return dotted(n.func) + '()'
    if isinstance(n, ast.Subscript): return dotted(n.value) + '[]'
    return '?'


def load_function(path, qualname):
    """ast of a function/method of a real source file"""
    src = open(path).read()
    tree = ast.parse(src)
    node = tree
    for part in qualname.split('.'):
        found = None
        for n in node.body:
            if isinstance(n, (ast.FunctionDef, ast.ClassDef)) and n.name == part:
                found = n
        if found is None:
            raise KeyError(f'{qualname} not found in {path}')
        node = found
    return node, tree


def is_print_block(stmts):
    return all(isinstance(x, ast.Expr) and isinstance(x.value, ast.Call) and dotted(x.value.func) == 'print'
               for x in stmts)


# ----------------------------------------------------------------------------- interpreter

class Interp:
    def __init__(self, calls, fork_timeout=2000, max_states=40000):
        self.calls = calls              # dotted name -> handler(ip, st, args, kw, node)
        self.results = []               # (state, retval | 'raise')
        self.unsupported = []
        self.forks = 0
        self.fork_timeout = fork_timeout
        self.max_states = max_states
        self.loop_invariants = None     # client hook: (ip, st, node) -> list of candidate invariant objects
        self.on_write = None            # client hook: (ip, st, event)

    # ---- client side-tables that must be rolled back when a loop body is re-run (Houdini)
    def mark(self):
        return None

    def reset_to(self, m):
        pass

    # ---- feasibility
    def feasible(self, st, extra=None):
        so = z3.Solver()
        so.set('timeout', self.fork_timeout)
        so.add(*st.pc)
        if extra is not None:
            so.add(extra)
        self.forks += 1
        return so.check() != z3.unsat

    def fork(self, st, cond):
        c = z3.simplify(cond)
        if z3.is_true(c):
            return st, None
        if z3.is_false(c):
            return None, st
        out = []
        for cc in (c, z3.Not(c)):
            n = st.clone()
            n.pc.append(cc)
            out.append(n if self.feasible(n) else None)
        return out[0], out[1]

    # ---- expressions: return list of (state, value)
    def ev(self, st, e):
        m = getattr(self, 'ev_' + type(e).__name__, None)
        if m is None:
            raise Unsupported(f'expression {type(e).__name__} (line {getattr(e, "lineno", "?")})')
        return m(st, e)

    def ev1(self, st, e):
        r = self.ev(st, e)
        if len(r) != 1:
            raise Unsupported(f'forking sub-expression {ast.unparse(e)[:60]}')
        return r[0][1]

    def ev_Constant(self, st, e):
        v = e.value
        if v is None: return [(st, SNone())]
        if isinstance(v, bool): return [(st, SBool(v))]
        if isinstance(v, int): return [(st, SInt(v))]
        if isinstance(v, float): return [(st, SReal(z3.RealVal(repr(v))))]
        if isinstance(v, str): return [(st, SStr(strcode(v), v))]
        raise Unsupported(f'constant {v!r}')

    def ev_JoinedStr(self, st, e):
        return [(st, SStr(fresh(I, 'fstr')))]

    def ev_Name(self, st, e):
        if e.id not in st.env:
            if e.id in st.ghost.get('loopnames', ()):
                # assigned later in the body of an enclosing loop: in an arbitrary iteration it holds the (arbitrary) value of an
                # earlier iteration -- modelled as a fresh scalar; the first-iteration UnboundLocalError is NOT excluded here
                st.env[e.id] = SReal(fresh(R, e.id))
                st.events.append(dict(kind='maybe-unbound', name=e.id, line=e.lineno))
                return [(st, st.env[e.id])]
            raise Unsupported(f'unbound name {e.id} (line {e.lineno})')
        return [(st, st.env[e.id])]

    def ev_Tuple(self, st, e):
        return [(st, STuple([self.ev1(st, x) for x in e.elts]))]

    def ev_List(self, st, e):
        loc = f'list#{next(_cnt)}'
        st.lists[loc] = dict(n=z3.IntVal(len(e.elts)), last=None, appends=0)
        return [(st, SList(loc))]

    def ev_Starred(self, st, e):
        return self.ev(st, e.value)

    def ev_Attribute(self, st, e):
        base = self.ev1(st, e.value)
        h = self.calls.get('attr:' + dotted(e))
        if h is not None:
            return [(st, h(self, st, base, e))]
        if isinstance(base, SObj):
            if e.attr in base.attrs:
                v = base.attrs[e.attr]
                return [(st, v(st) if callable(v) else v)]
            if base.name == 'np' and e.attr == 'inf':
                return [(st, SInf())]
            return [(st, SObj(base.name + '.' + e.attr))]
        if isinstance(base, SArr):
            if e.attr == 'shape':
                return [(st, STuple([SInt(st.vlen(base))]))]
            if e.attr == 'dtype':
                return [(st, SObj('dtype'))]
            if e.attr == 'T':
                return [(st, base)]
            return [(st, SObj(f'arr.{e.attr}', attrs={'self': base}))]
        if isinstance(base, SOpaque):
            return [(st, SOpaque(base.why + '.' + e.attr))]
        raise Unsupported(f'attribute {e.attr} of {type(base).__name__} (line {e.lineno})')

    def ev_UnaryOp(self, st, e):
        v = self.ev1(st, e.operand)
        if isinstance(e.op, ast.Not):
            return [(st, SBool(z3.Not(to_bool(v))))]
        if isinstance(e.op, ast.USub):
            if isinstance(v, SInt): return [(st, SInt(-v.t))]
            if isinstance(v, (SReal, SBool)): return [(st, SReal(-to_real(v)))]
            if isinstance(v, SArr):
                r = self.pure_array(st, 'neg', [v], op='USub')
                st.events[-1]['op'] = 'USub'
                st.events[-1]['operands'] = [(v.loc, st.ver(v))]
                return [(st, r)]
            if isinstance(v, SOpaque): return [(st, self.pure_array(st, 'neg', [v]))]
        if isinstance(e.op, ast.Invert) and isinstance(v, SArr):
            loc = st.newloc('notmask', st.vlen(v))
            nv, ov, lo = st.heap[loc], st.ver(v), st.lo(v)
            st.qfacts.append(lambda k, nv=nv, ov=ov, lo=lo: selb(nv, k) == z3.Not(selb(ov, lo + k)))
            if v.lo is None and v.hi is None:
                st.ghost.setdefault('notmask', {})[loc] = (nv, v.loc, ov)
            return [(st, SArr(loc, kind='b'))]
        raise Unsupported(f'unary {ast.dump(e.op)} on {type(v).__name__}')

    def pure_array(self, st, why, args, op=None):
        """result of array arithmetic: a new array (no aliasing with the operands) whose contents are a FUNCTION of the operand
        contents: when every operand is a whole array or a scalar term, the version is an uninterpreted function of the operand
        versions (the same expression on the same versions denotes the same array)"""
        n = None
        for a in args:
            if isinstance(a, SArr):
                n = st.vlen(a)
                break
        loc = st.newloc(why, n)
        if op is not None and all((isinstance(a, SArr) and a.lo is None and a.hi is None) or isinstance(a, (SReal, SInt)) for a in args) \
                and any(isinstance(a, SArr) for a in args):
            sig = tuple('A' if isinstance(a, SArr) else 'S' for a in args)
            f = z3.Function(f'PURE_{op}_{"".join(sig)}', *([V if c == 'A' else R for c in sig] + [V]))
            st.heap[loc] = f(*[st.ver(a) if isinstance(a, SArr) else to_real(a) for a in args])
            if n is not None:
                st.pc.append(alen(st.heap[loc]) == n)
        st.events.append(dict(kind='pure', why=why, loc=loc,
                              args=[(a.loc, st.ver(a)) for a in args if isinstance(a, SArr)]))
        nd = 2 if any((isinstance(a, SObj) and a.attrs.get('ndim') != 1) or (isinstance(a, SArr) and a.ndim == 2) for a in args) else 1
        return SArr(loc, ndim=nd)

    def arith(self, op, a, b):
        if isinstance(a, SStr) or isinstance(b, SStr):
            return SStr(fresh(I, 'str'))        # string formatting / concatenation / repetition
        if isinstance(a, SInf) or isinstance(b, SInf):
            raise Unsupported('arithmetic on inf')
        bothint = all(isinstance(x, (SInt, SBool)) for x in (a, b)) and not isinstance(op, ast.Div)
        x, y = (to_int(a), to_int(b)) if bothint else (to_real(a), to_real(b))
        if isinstance(op, ast.Add): r = x + y
        elif isinstance(op, ast.Sub): r = x - y
        elif isinstance(op, ast.Mult): r = x * y
        elif isinstance(op, ast.Div): r = x / y
        elif isinstance(op, ast.Mod): r = x % y
        elif isinstance(op, ast.FloorDiv) and bothint: r = x / y
        elif isinstance(op, ast.Pow):
            y = z3.simplify(y)
            if z3.is_int_value(y) or z3.is_rational_value(y):
                r = x ** y
            else:
                raise Unsupported('symbolic power')
        else:
            raise Unsupported(f'operator {type(op).__name__}')
        return SInt(r) if bothint else SReal(r)

    def ev_BinOp(self, st, e):
        a, b = self.ev1(st, e.left), self.ev1(st, e.right)
        h = self.calls.get('binop')
        if h is not None:
            r = h(self, st, e, a, b)
            if r is not None:
                return [(st, r)]
        if isinstance(e.op, (ast.BitAnd, ast.BitOr)) and all(isinstance(x, SArr) and x.kind == 'b' and x.lo is None and x.hi is None
                                                             for x in (a, b)):
            loc = st.newloc('andmask' if isinstance(e.op, ast.BitAnd) else 'ormask', st.vlen(a))
            nv, av, bv = st.heap[loc], st.ver(a), st.ver(b)
            comb = z3.And if isinstance(e.op, ast.BitAnd) else z3.Or
            st.qfacts.append(lambda k, nv=nv, av=av, bv=bv: selb(nv, k) == comb(selb(av, k), selb(bv, k)))
            st.ghost.setdefault('andmask' if isinstance(e.op, ast.BitAnd) else 'ormask', {})[loc] = (nv, (a.loc, av), (b.loc, bv))
            return [(st, SArr(loc, kind='b'))]
        if isinstance(a, (SArr, SObj, SOpaque)) or isinstance(b, (SArr, SObj, SOpaque)):
            if isinstance(e.op, ast.MatMult) and all(isinstance(x, SArr) and x.ndim == 1 for x in (a, b)):
                if all(x.lo is None and x.hi is None for x in (a, b)):
                    return [(st, SReal(DOT(st.ver(a), st.ver(b))))]
                return [(st, SReal(fresh(R, 'dot')))]
            r = self.pure_array(st, 'expr', [a, b], op=type(e.op).__name__)
            st.events[-1]['op'] = type(e.op).__name__
            st.events[-1]['operands'] = [(x.loc, st.ver(x)) if isinstance(x, SArr) else None for x in (a, b)]
            if isinstance(e.op, ast.MatMult):
                one_d = any((isinstance(x, SArr) and x.ndim == 1) or (isinstance(x, SObj) and x.attrs.get('ndim') == 1) for x in (a, b))
                r.ndim = 1 if one_d else 2
            return [(st, r)]
        return [(st, self.arith(e.op, a, b))]

    def ev_BoolOp(self, st, e):
        vals = [to_bool(self.ev1(st, x)) for x in e.values]
        return [(st, SBool(z3.And(*vals) if isinstance(e.op, ast.And) else z3.Or(*vals)))]

    def cmp(self, op, a, b):
        if isinstance(op, (ast.Is, ast.IsNot)):
            r = z3.BoolVal(isinstance(a, SNone) == isinstance(b, SNone)) if (isinstance(a, SNone) or isinstance(b, SNone)) \
                else z3.BoolVal(a is b)
            return r if isinstance(op, ast.Is) else z3.Not(r)
        if isinstance(op, (ast.In, ast.NotIn)):
            if not isinstance(b, STuple):
                raise Unsupported('`in` on a non-tuple')
            r = z3.Or(*[a.t == x.t for x in b.items])
            return r if isinstance(op, ast.In) else z3.Not(r)
        if isinstance(a, SStr) or isinstance(b, SStr):
            r = a.t == b.t
            return r if isinstance(op, ast.Eq) else z3.Not(r)
        if isinstance(a, SInf) or isinstance(b, SInf):
            if isinstance(a, SInf) and not isinstance(b, SInf):
                return z3.BoolVal(isinstance(op, (ast.Gt, ast.GtE, ast.NotEq)))
            if isinstance(b, SInf) and not isinstance(a, SInf):
                return z3.BoolVal(isinstance(op, (ast.Lt, ast.LtE, ast.NotEq)))
            return z3.BoolVal(isinstance(op, (ast.Eq, ast.LtE, ast.GtE)))
        if isinstance(a, SOpaque) or isinstance(b, SOpaque):
            return fresh(B, 'opaque_cmp')
        bothint = all(isinstance(x, (SInt, SBool)) for x in (a, b))
        x, y = (to_int(a), to_int(b)) if bothint else (to_real(a), to_real(b))
        return {ast.Lt: x < y, ast.LtE: x <= y, ast.Gt: x > y, ast.GtE: x >= y,
                ast.Eq: x == y, ast.NotEq: x != y}[type(op)]

    def ev_Compare(self, st, e):
        if len(e.ops) != 1:
            raise Unsupported('chained comparison')
        a, b = self.ev1(st, e.left), self.ev1(st, e.comparators[0])
        if (isinstance(a, SArr) or isinstance(b, SArr)) and not isinstance(e.ops[0], (ast.Is, ast.IsNot)):
            arr = a if isinstance(a, SArr) else b
            loc = st.newloc('mask', st.vlen(arr))
            return [(st, SArr(loc, kind='b'))]
        return [(st, SBool(self.cmp(e.ops[0], a, b)))]

    def ev_IfExp(self, st, e):
        out = []
        for st2, c in self.ev(st, e.test):
            t, f = self.fork(st2, to_bool(c))
            if t is not None: out += self.ev(t, e.body)
            if f is not None: out += self.ev(f, e.orelse)
        return out

    def index_of(self, st, arr, idx):
        n = st.vlen(arr)
        i = to_int(idx)
        h = self.calls.get('index-check')
        if h is not None:
            h(self, st, arr, i, n)          # bounds obligation  -n <= i < n  (client decides how to discharge it)
        return st.lo(arr) + z3.If(i < 0, n + i, i)

    def ev_Subscript(self, st, e):
        base = self.ev1(st, e.value)
        if isinstance(base, STuple):
            if isinstance(e.slice, ast.Constant):
                return [(st, base.items[e.slice.value])]
            idx = self.ev1(st, e.slice)
            if isinstance(idx, SInt) and z3.is_int_value(z3.simplify(idx.t)):
                return [(st, base.items[z3.simplify(idx.t).as_long()])]
            raise Unsupported('symbolic tuple index')
        h = self.calls.get('subscript')
        if h is not None:
            r = h(self, st, e, base)
            if r is not None:
                return [(st, r)]
        if isinstance(base, (SObj, SOpaque)):
            return [(st, SOpaque(dotted(e)))]
        if isinstance(base, SList):
            # lst[-1]: the value of the last append (the only list read the solvers use); anything else is an unknown element
            idx = self.ev1(st, e.slice)
            Lst = st.lists[base.loc]
            if isinstance(idx, SInt) and z3.is_true(z3.simplify(idx.t == -1)) and Lst.get('last') is not None:
                return [(st, Lst['last'])]
            return [(st, SReal(fresh(R, 'list_elem')))]
        if not isinstance(base, SArr):
            raise Unsupported(f'subscript of {type(base).__name__} (line {e.lineno})')
        sl = e.slice
        if isinstance(sl, ast.Slice):
            if sl.step is not None:
                raise Unsupported('slice step')
            n = st.vlen(base)
            lo = to_int(self.ev1(st, sl.lower)) if sl.lower else z3.IntVal(0)
            hi = to_int(self.ev1(st, sl.upper)) if sl.upper else n
            lo = z3.If(lo < 0, n + lo, lo)
            hi = z3.If(hi < 0, n + hi, hi)
            b0 = st.lo(base)
            return [(st, SArr(base.loc, z3.simplify(b0 + lo), z3.simplify(b0 + hi), base.kind))]
        if isinstance(sl, ast.Tuple):
            return [(st, SOpaque('nd-index'))]
        idx = self.ev1(st, sl)
        if isinstance(idx, SArr):       # fancy / mask read: a fresh copy
            n = st.vlen(idx) if idx.kind == 'i' else None
            loc = st.newloc('fancy', n)
            st.events.append(dict(kind='fancy-read', loc=loc, src=base.loc, src_ver=st.ver(base), idx=idx.loc,
                                  idx_ver=st.ver(idx)))
            if idx.kind == 'i' and base.kind == 'r':
                nv, ov, iv, lo = st.heap[loc], st.ver(base), st.ver(idx), st.lo(base)
                st.qfacts.append(lambda k, nv=nv, ov=ov, iv=iv, lo=lo: selr(nv, k) == selr(ov, lo + seli(iv, k)))
            return [(st, SArr(loc, kind=base.kind))]
        k = self.index_of(st, base, idx)
        ver = st.ver(base)
        if base.kind == 'r': return [(st, SReal(selr(ver, k)))]
        if base.kind == 'i': return [(st, SInt(seli(ver, k)))]
        return [(st, SBool(selb(ver, k)))]

    def ev_Call(self, st, e):
        name = dotted(e.func)
        args = []
        for a in e.args:
            v = self.ev1(st, a)
            if isinstance(a, ast.Starred) and isinstance(v, STuple):
                args += v.items
            else:
                args.append(v)
        kw = {k.arg: self.ev1(st, k.value) for k in e.keywords}
        h = self.calls.get(name)
        recv = None
        if h is None and isinstance(e.func, ast.Attribute):
            recv = self.ev1(st, e.func.value)
            h = self.calls.get('*.' + e.func.attr)
            if h is not None:
                args = [recv] + args
        if h is None and isinstance(e.func, ast.Name) and isinstance(st.env.get(e.func.id), SFunc):
            return self.call_local(st, st.env[e.func.id], args, kw, e)
        if h is None:
            self.unsupported.append(f'call:{name} (line {e.lineno})')
            st.taint.append(f'unknown call {name} at line {e.lineno}')
            for a in args:
                if isinstance(a, SArr):
                    st.bump(a.loc, f'unknown call {name}', e, unknown=True)
            return [(st, SOpaque(name))]
        r = h(self, st, args, kw, e)
        return r if isinstance(r, list) else [(st, r)]

    def call_local(self, st, fn, args, kw, node):
        raise Unsupported('call of a local function')

    # ---- statements: dict kind -> list of states
    def run_block(self, st, body):
        cur, brk, cont = [st], [], []
        for stmt in body:
            nxt = []
            for c in cur:
                r = self.run_stmt(c, stmt)
                nxt += r.get('next', [])
                brk += r.get('break', [])
                cont += r.get('continue', [])
            cur = nxt
            if len(cur) + len(brk) > self.max_states:
                raise Unsupported('state explosion')
            if not cur:
                break
        return {'next': cur, 'break': brk, 'continue': cont}

    def run_stmt(self, st, n):
        m = getattr(self, 'st_' + type(n).__name__, None)
        if m is None:
            raise Unsupported(f'statement {type(n).__name__} (line {n.lineno})')
        return m(st, n)

    def write_elem(self, st, base, k, val, node):
        """base[k] = val for a scalar index term k (absolute position)"""
        old, new = st.bump(base.loc, ast.unparse(node)[:60], node, elem=k, val=val)
        if base.kind == 'r' and isinstance(val, (SReal, SInt, SBool)):
            st.qfacts.append(lambda q, new=new, old=old, k=k, v=to_real(val):
                             selr(new, q) == z3.If(q == k, v, selr(old, q)))
            st.pc.append(selr(new, k) == to_real(val))
        elif base.kind == 'r' and isinstance(val, SInf):
            st.qfacts.append(lambda q, new=new, old=old, k=k: z3.Implies(q != k, selr(new, q) == selr(old, q)))
            st.events[-1]['inf'] = True
        if self.on_write:
            self.on_write(self, st, st.events[-1])

    def assign_to(self, st, tgt, val, node):
        if isinstance(tgt, ast.Name):
            st.env[tgt.id] = val
        elif isinstance(tgt, (ast.Tuple, ast.List)):
            if not isinstance(val, STuple) or len(val.items) != len(tgt.elts):
                raise Unsupported('tuple assignment from ' + type(val).__name__)
            for t, v in zip(tgt.elts, val.items):
                self.assign_to(st, t, v, node)
        elif isinstance(tgt, ast.Subscript):
            base = self.ev1(st, tgt.value)
            if isinstance(base, SList):
                raise Unsupported('list item assignment')
            if not isinstance(base, SArr):
                st.taint.append(f'store into {type(base).__name__} at line {node.lineno}')
                return
            sl = tgt.slice
            if isinstance(sl, ast.Slice):
                n = st.vlen(base)
                lo = to_int(self.ev1(st, sl.lower)) if sl.lower else z3.IntVal(0)
                hi = to_int(self.ev1(st, sl.upper)) if sl.upper else n
                full = sl.lower is None and sl.upper is None
                src = (val.loc, st.ver(val), val.lo, val.hi) if isinstance(val, SArr) else None
                old, new = st.bump(base.loc, ast.unparse(node)[:60], node, slice=(lo, hi), full=full, src=src,
                                   scalar=(val if isinstance(val, (SReal, SInt)) else None), view=(base.lo, base.hi))
                if base.kind == 'r' and isinstance(val, (SReal, SInt)) and full and base.lo is None:
                    st.qfacts.append(lambda q, new=new, v=to_real(val): selr(new, q) == v)
                elif base.kind == 'r' and isinstance(val, SArr) and val.kind == 'r' and full and base.lo is None:
                    sv, slo = st.ver(val), st.lo(val)
                    st.qfacts.append(lambda q, new=new, sv=sv, slo=slo: selr(new, q) == selr(sv, slo + q))
                if self.on_write:
                    self.on_write(self, st, st.events[-1])
                return
            idx = self.ev1(st, sl)
            if isinstance(idx, SArr):
                old, new = st.bump(base.loc, ast.unparse(node)[:60], node, fancy=(idx.loc, st.ver(idx), idx.kind),
                                   src=((val.loc, st.ver(val)) if isinstance(val, SArr) else None),
                                   scalar=(val if isinstance(val, (SReal, SInt, SInf)) else None))
                if self.on_write:
                    self.on_write(self, st, st.events[-1])
                return
            if isinstance(idx, (SOpaque, STuple)):
                st.bump(base.loc, ast.unparse(node)[:60], node, unknown=True)
                return
            self.write_elem(st, base, self.index_of(st, base, idx), val, node)
        elif isinstance(tgt, ast.Attribute):
            base = self.ev1(st, tgt.value)
            st.events.append(dict(kind='attrwrite', target=ast.unparse(tgt), obj=getattr(base, 'name', '?'),
                                  attr=tgt.attr, val=val, line=node.lineno))
            if isinstance(base, SObj):
                base.attrs = dict(base.attrs)
                base.attrs[tgt.attr] = val
        else:
            raise Unsupported(f'assignment target {type(tgt).__name__}')

    def st_Assign(self, st, n):
        out = []
        for st2, v in self.ev(st, n.value):
            for t in n.targets:
                self.assign_to(st2, t, v, n)
            out.append(st2)
        return {'next': out}

    def st_AnnAssign(self, st, n):
        return {'next': [st]}

    def st_AugAssign(self, st, n):
        load = copy.deepcopy(n.target)
        for x in ast.walk(load):
            if hasattr(x, 'ctx'):
                x.ctx = ast.Load()
        cur = self.ev1(st, load)
        rhs = self.ev1(st, n.value)
        if isinstance(cur, SArr):       # in-place array update
            st.bump(cur.loc, ast.unparse(n)[:60], n, inplace=type(n.op).__name__,
                    scalar=(rhs if isinstance(rhs, (SReal, SInt)) else None),
                    src=((rhs.loc, st.ver(rhs)) if isinstance(rhs, SArr) else None), view=(cur.lo, cur.hi))
            if self.on_write:
                self.on_write(self, st, st.events[-1])
            return {'next': [st]}
        if isinstance(cur, (SOpaque, SObj)) or isinstance(rhs, (SOpaque, SObj, SArr)):
            if isinstance(n.target, ast.Name):
                st.env[n.target.id] = SOpaque('aug')
                return {'next': [st]}
            raise Unsupported('augmented assignment on an opaque value')
        val = self.arith(n.op, cur, rhs)
        self.assign_to(st, n.target, val, n)
        return {'next': [st]}

    def st_Expr(self, st, n):
        if isinstance(n.value, ast.Constant):
            return {'next': [st]}
        return {'next': [x for x, _ in self.ev(st, n.value)]}

    def st_If(self, st, n):
        if not n.orelse and is_print_block(n.body):
            return {'next': [st]}
        out = {'next': [], 'break': [], 'continue': []}
        for st2, c in self.ev(st, n.test):
            t, f = self.fork(st2, to_bool(c))
            for br, body in ((t, n.body), (f, n.orelse)):
                if br is None:
                    continue
                r = self.run_block(br, body) if body else {'next': [br]}
                for k in out:
                    out[k] += r.get(k, [])
        return out

    def st_Break(self, st, n): return {'break': [st]}
    def st_Continue(self, st, n): return {'continue': [st]}
    def st_Pass(self, st, n): return {'next': [st]}

    def st_Raise(self, st, n):
        st.events.append(dict(kind='raise', line=n.lineno, text=ast.unparse(n)[:120]))
        self.results.append((st, 'raise'))
        return {}

    def st_Return(self, st, n):
        if n.value is None:
            self.results.append((st, SNone()))
            return {}
        for st2, v in self.ev(st, n.value):
            self.results.append((st2, v))
        return {}

    def st_FunctionDef(self, st, n):
        st.env[n.name] = SFunc(n, None)
        return {'next': [st]}

    def st_Import(self, st, n): return {'next': [st]}
    st_ImportFrom = st_Import

    def st_With(self, st, n):
        return self.run_block(st, n.body)

    def st_Assert(self, st, n):
        return {'next': [st]}

    # ---- loops
    def writes(self, body):
        """(names assigned, names of arrays written in place) in a block -- syntactic, incl. callee frames"""
        names, arrs = set(), set()
        for x in ast.walk(ast.Module(body=body, type_ignores=[])):
            if isinstance(x, (ast.Assign, ast.AugAssign)):
                tg = x.targets if isinstance(x, ast.Assign) else [x.target]
                for t in tg:
                    for y in ([t] if not isinstance(t, (ast.Tuple, ast.List)) else t.elts):
                        if isinstance(y, ast.Name):
                            names.add(y.id)
                            if isinstance(x, ast.AugAssign):
                                arrs.add(y.id)
                        elif isinstance(y, ast.Subscript):
                            b = y.value
                            while isinstance(b, ast.Subscript):
                                b = b.value
                            if isinstance(b, ast.Name):
                                arrs.add(b.id)
            elif isinstance(x, ast.For):
                for y in ast.walk(x.target):
                    if isinstance(y, ast.Name):
                        names.add(y.id)
            elif isinstance(x, ast.Call):
                nm = dotted(x.func)
                mod = self.calls.get('modifies:' + nm)
                if mod is None and isinstance(x.func, ast.Attribute):
                    mod = self.calls.get('modifies:*.' + x.func.attr)
                    if mod is not None and 0 in mod:
                        b = x.func.value
                        while isinstance(b, ast.Subscript):
                            b = b.value
                        if isinstance(b, ast.Name):
                            arrs.add(b.id)
                        mod = [m - 1 for m in mod if m > 0]
                if mod is None and nm not in self.calls and ('*.' + nm.rsplit('.', 1)[-1]) not in self.calls:
                    mod = range(len(x.args))        # unknown callee: every array argument
                for pos in (mod or ()):
                    if pos < len(x.args):
                        b = x.args[pos]
                        while isinstance(b, (ast.Subscript, ast.Starred)):
                            b = b.value
                        if isinstance(b, ast.Name):
                            arrs.add(b.id)
        return names, arrs

    def havoc(self, st, names, arrs, node):
        for nm in sorted(arrs):
            v = st.env.get(nm)
            if isinstance(v, SArr):
                st.bump(v.loc, 'loop-havoc', node, havoc=True)
            elif isinstance(v, SList):
                pass
        for nm in sorted(names):
            if nm in st.env:
                v = st.env[nm]
                if isinstance(v, SArr) and nm in arrs:
                    continue
                st.env[nm] = self.havoc_like(st, v, nm)

    def havoc_like(self, st, v, nm):
        if isinstance(v, SInt): return SInt(fresh(I, nm))
        if isinstance(v, (SReal, SInf)): return SReal(fresh(R, nm))
        if isinstance(v, SBool): return SBool(fresh(B, nm))
        if isinstance(v, SArr):
            loc = st.newloc(nm)
            return SArr(loc, kind=v.kind, ndim=v.ndim)
        if isinstance(v, SStr): return SStr(fresh(I, nm))
        return v

    def loop_range(self, st, n):
        it = n.iter
        if isinstance(it, ast.Call) and dotted(it.func) == 'range' and len(it.args) == 1 and isinstance(n.target, ast.Name):
            return to_int(self.ev1(st, it.args[0]))
        raise Unsupported(f'loop form `{ast.unparse(n.iter)[:40]}` (line {n.lineno})')

    def st_For(self, st, n):
        N = self.loop_range(st, n)
        out = {'next': [], 'break': [], 'continue': []}
        # (a) zero iterations
        z = st.clone()
        z.pc.append(N <= 0)
        if self.feasible(z):
            z.events.append(dict(kind='loop-skip', line=n.lineno))
            out['next'] += self.run_block(z, n.orelse)['next'] if n.orelse else [z]
        # (b) one arbitrary iteration, reached after any number of earlier iterations
        names, arrs = self.writes(n.body)
        appended = {x.func.value.id for x in ast.walk(ast.Module(body=n.body, type_ignores=[]))
                    if isinstance(x, ast.Call) and isinstance(x.func, ast.Attribute) and x.func.attr == 'append'
                    and isinstance(x.func.value, ast.Name)}
        lists = [nm for nm in st.env if isinstance(st.env[nm], SList) and nm in appended]
        cands = list(self.loop_invariants(self, st, n)) if self.loop_invariants else []
        for c in cands:
            c.establish(self, st)
        while True:
            g = st.clone()
            it = fresh(I, n.target.id)
            g.pc += [N > 0, it >= 0, it < N]
            self.havoc(g, names, arrs, n)
            g.ghost['loopnames'] = set(g.ghost.get('loopnames', ())) | set(names)
            for nm in lists:
                L = g.lists[g.env[nm].loc]
                L['n0'] = L['n']
                L['n'] = fresh(I, nm + '_len')
                g.pc.append(L['n'] >= L['n0'])
                L['last'] = None
            g.env[n.target.id] = SInt(it)
            g.events.append(dict(kind='loophead', line=n.lineno, it=it, N=N))
            live = [c for c in cands if c.alive]
            for c in live:
                c.assume(self, g, it)
            saved = (len(self.results), list(self.unsupported), self.mark())
            r = self.run_block(g, n.body)
            ends = r['next'] + r['continue']
            dropped = False
            for c in live:
                if not c.preserved(self, ends, it):
                    c.alive = False
                    dropped = True
            if not dropped:
                break
            del self.results[saved[0]:]
            self.unsupported = saved[1]
            self.reset_to(saved[2])
        out['next'] += r['break']                       # `break` leaves the loop and skips else
        for e in ends:                                  # end of body, taken as the last iteration
            e2 = e.clone()
            e2.events.append(dict(kind='loop-exhausted', line=n.lineno, it=it, N=N))
            e2.pc.append(it == N - 1)
            out['next'] += self.run_block(e2, n.orelse)['next'] if n.orelse else [e2]
        return out

    # ---- entry
    def run(self, st, fn_node):
        r = self.run_block(st, fn_node.body)
        for s in r['next']:
            self.results.append((s, SNone()))
        return self.results


def instantiate(st, terms):
    """ground instances of the quantified contract facts at the given index terms"""
    out = []
    for f in st.qfacts:
        for t in terms:
            out.append(f(t))
    return out

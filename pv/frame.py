"""Frame (modifies-clause) analysis of the real source: which objects reachable from a function's parameters, from `self` or from
module-level state may be written when the function runs.

It is a may-alias, flow-insensitive, interprocedural analysis over the package's ASTs, re-read on every run:

  roots      a root is a tuple  ('p', <parameter>[, attr, ...])   an object reachable from a parameter by attribute loads
                               ('g', <module>, <name>)            a module-level object
  aliasing   a local name may alias the union of the roots of every expression assigned to it; views (slices, .T, ravel, reshape,
             np.asarray, check_array, astype(copy=False) ...) keep the roots of their operand, copies and arithmetic are fresh
  writes     a[...] = v, a[...] op= v, a op= v (in place for arrays), a.attr = v, del a[...], mutating methods (fill, sort, append,
             update ...), out= keywords, np.copyto & co, and -- through call summaries -- whatever a callee of the same package writes;
             method calls on objects of unknown class are resolved by name over all classes of the package (class-hierarchy analysis)
  summary    per function: parameters whose contents may be written ('elem'), (parameter path, attribute) stores ('attr'),
             parameter paths the return value may alias

Soundness caveats (stated in the evidence): Python reflection (setattr with computed names, __dict__, exec), C extensions called with
aliases of protected arrays other than the listed numpy mutators, and writes through containers of arrays are not tracked.
"""
import ast
import os

VIEW_ATTRS = {'T', 'data', 'indices', 'indptr', 'real', 'imag', 'flat', 'base', 'mT'}
SCALAR_ATTRS = {'shape', 'dtype', 'size', 'ndim', 'nnz', 'itemsize', 'nbytes', 'strides', 'flags', '__class__', '__name__'}
VIEW_METHODS = {'ravel', 'reshape', 'view', 'squeeze', 'transpose', 'swapaxes', 'tocsc', 'tocsr', 'tocoo', 'asformat', 'asfptype',
                'diagonal', '__getitem__', 'get', 'setdefault', '_validate_data', 'astype'}
ALIAS_FUNCS = {'asarray', 'asanyarray', 'ascontiguousarray', 'asfortranarray', 'atleast_1d', 'atleast_2d', 'ravel', 'reshape',
               'squeeze', 'transpose', 'check_array', 'check_X_y', 'column_or_1d', 'as_float_array', 'broadcast_to', 'real',
               'require', 'asarray_chkfinite', 'moveaxis', 'swapaxes', 'expand_dims', 'csc_matrix', 'csr_matrix', 'array',
               'getattr', 'tuple', 'list', 'dict', 'iter', 'next', 'zip', 'enumerate', 'reversed', 'check_consistent_length'}
MUTATORS = {'fill', 'sort', 'resize', 'put', 'itemset', 'setflags', 'partition', 'append', 'extend', 'insert', 'pop', 'remove',
            'clear', 'update', 'setdefault', 'popitem', 'add', 'discard', 'setfield', 'byteswap', 'sort_indices',
            'eliminate_zeros', 'sum_duplicates', 'setdiag', 'reverse', '__setitem__', '__iadd__', '__imul__', 'shuffle'}
FIRST_ARG_MUTATORS = {'copyto', 'put', 'place', 'putmask', 'fill_diagonal', 'shuffle', 'put_along_axis', 'inplace_column_scale',
                      'inplace_row_scale', 'setattr', 'delattr'}


def dotted(n):
    if isinstance(n, ast.Name):
        return n.id
    if isinstance(n, ast.Attribute):
        b = dotted(n.value)
        return None if b is None else b + '.' + n.attr
    return None


class Package:
    """all modules of a package, parsed; class hierarchy; function table"""

    def __init__(self, root, pkg='skglm', skip=('tests',)):
        self.root, self.pkg = root, pkg
        self.modules = {}                # 'skglm.solvers.anderson_cd' -> ast.Module
        self.packages = set()
        for dp, dn, fn in os.walk(os.path.join(root, pkg)):
            dn[:] = [d for d in dn if d not in skip and not d.startswith('.')]
            for f in fn:
                if f.endswith('.py'):
                    p = os.path.join(dp, f)
                    rel = os.path.relpath(p, root)[:-3].replace(os.sep, '.')
                    if rel.endswith('.__init__'):
                        rel = rel[:-9]
                        self.packages.add(rel)
                    try:
                        self.modules[rel] = ast.parse(open(p).read(), p)
                    except SyntaxError:
                        pass
        self.funcs, self.classes, self.imports, self.globals_ = {}, {}, {}, {}
        for m, tree in self.modules.items():
            imp = {}
            gl = {}
            for st in tree.body:
                if isinstance(st, ast.FunctionDef):
                    self.funcs[(m, st.name)] = st
                elif isinstance(st, ast.ClassDef):
                    self.classes[(m, st.name)] = st
                elif isinstance(st, ast.ImportFrom):
                    if st.level:
                        parts = m.split('.') if m in self.packages else m.split('.')[:-1]
                        parts = parts[:len(parts) - (st.level - 1)]
                        base = '.'.join(parts + ([st.module] if st.module else []))
                    else:
                        base = st.module
                    for a in st.names:
                        imp[a.asname or a.name] = (base, a.name)
                elif isinstance(st, ast.Import):
                    for a in st.names:
                        imp[a.asname or a.name.split('.')[0]] = ('', a.name)
                elif isinstance(st, (ast.Assign, ast.AnnAssign)):
                    tg = st.targets if isinstance(st, ast.Assign) else [st.target]
                    for t in tg:
                        if isinstance(t, ast.Name):
                            gl[t.id] = st.value
            self.imports[m], self.globals_[m] = imp, gl
        self._memo, self._active, self._prev = {}, set(), {}

    # ---- resolution
    def resolve_name(self, mod, name, depth=0):
        """a module-level name -> ('func', mod, FunctionDef) | ('class', mod, ClassDef) | None (follows re-exports)"""
        if (mod, name) in self.funcs:
            return ('func', mod, self.funcs[(mod, name)])
        if (mod, name) in self.classes:
            return ('class', mod, self.classes[(mod, name)])
        imp = self.imports.get(mod, {}).get(name)
        if imp and depth < 6:
            base, nm = imp
            if base in self.modules:
                return self.resolve_name(base, nm, depth + 1)
        return None

    def class_mro(self, mod, cls):
        out, seen, todo = [], set(), [(mod, cls)]
        while todo:
            m, c = todo.pop(0)
            if (m, c.name) in seen:
                continue
            seen.add((m, c.name))
            out.append((m, c))
            for b in c.bases:
                nm = dotted(b)
                r = self.resolve_name(m, nm.split('.')[-1]) if nm else None
                if r and r[0] == 'class':
                    todo.append((r[1], r[2]))
        return out

    def find_method(self, mod, cls, name):
        for m, c in self.class_mro(mod, cls):
            for st in c.body:
                if isinstance(st, ast.FunctionDef) and st.name == name:
                    return m, c, st
        return None

    def subclasses_of(self, base_name):
        out = []
        for (m, n), c in self.classes.items():
            if any(cc.name == base_name for _, cc in self.class_mro(m, c)):
                out.append((m, c))
        return out

    def methods_named(self, name):
        """(mod, cls, fn) for every class of the package that defines `name` itself"""
        out = []
        for (m, n), c in self.classes.items():
            for st in c.body:
                if isinstance(st, ast.FunctionDef) and st.name == name:
                    out.append((m, c, st))
        return out

    # ---- summaries
    def summary(self, mod, fn, cls=None, dyn=None):
        """dyn: (mod, ClassDef, open) -- the class `self` is an instance of; open = the receiver's class is not known exactly, so
        self.m() may reach every override in a subclass"""
        key = (mod, cls.name if cls is not None else None, fn.name, fn.lineno, (dyn[1].name, bool(dyn[2])) if dyn else None)
        if key in self._memo:
            return self._memo[key]
        if key in self._active:
            return self._prev.get(key) or dict(elem={}, attr={}, ret=set(), glob={}, memo={})
        self._active.add(key)
        try:
            s = FuncAnalysis(self, mod, fn, cls, dyn).run()
        finally:
            self._active.discard(key)
        self._memo[key] = s
        return s

    def solve_all(self, entries, max_rounds=8):
        """global fixpoint over recursive call cycles: summaries only grow from round to round"""
        prev_sig = None
        for rnd in range(max_rounds):
            self._memo = {}
            out = [self.summary(*e) for e in entries]
            sig = {k: _sig(v) for k, v in self._memo.items()}
            if sig == prev_sig:
                break
            prev_sig, self._prev = sig, dict(self._memo)
        self.rounds = rnd + 1
        return out


def _sig(s):
    return (sorted(map(str, s['elem'])), sorted(map(str, s['attr'])), sorted(map(str, s['ret'])), sorted(map(str, s['glob'])))


def _memoised(fn):
    for dec in fn.decorator_list:
        dn = dotted(dec.func if isinstance(dec, ast.Call) else dec) or ''
        if dn.split('.')[-1] in ('lru_cache', 'cache'):
            return True
    return False


def params_of(fn):
    a = fn.args
    names = [x.arg for x in a.posonlyargs + a.args]
    extra = [x.arg for x in a.kwonlyargs]
    if a.vararg:
        extra.append(a.vararg.arg)
    if a.kwarg:
        extra.append(a.kwarg.arg)
    return names, extra


class FuncAnalysis:
    def __init__(self, pkg, mod, fn, cls, dyn):
        self.pkg, self.mod, self.fn, self.cls, self.dyn = pkg, mod, fn, cls, dyn
        self.pos, extra = params_of(fn)
        self.params = set(self.pos) | set(extra)
        self.alias = {}                 # local name -> set(roots)
        self.elem, self.attr, self.glob = {}, {}, {}     # root -> [lines] ; (root, attr) -> [lines] ; ('g', mod, name) -> [lines]
        self.ret = set()
        self.memo = {}
        self.declared_global = set()
        self.immutable = set()          # names only ever bound to tuple displays / constants: `x += ...` rebinds

    # ---- roots of an expression
    def roots(self, e):
        if e is None:
            return set()
        if isinstance(e, ast.Name):
            out = set(self.alias.get(e.id, ()))
            if e.id in self.params:
                out.add(('p', e.id))
            elif e.id not in self.alias and e.id in self.pkg.globals_.get(self.mod, {}) or e.id in self.declared_global:
                out.add(('g', self.mod, e.id))
            return out
        if isinstance(e, ast.Attribute):
            if e.attr in SCALAR_ATTRS:
                return set()
            base = self.roots(e.value)
            if e.attr in VIEW_ATTRS:
                return base
            return {r + (e.attr,) if r[0] == 'p' else r for r in base}
        if isinstance(e, ast.Subscript):
            return self.roots(e.value)
        if isinstance(e, ast.Starred):
            return self.roots(e.value)
        if isinstance(e, ast.IfExp):
            return self.roots(e.body) | self.roots(e.orelse)
        if isinstance(e, ast.BoolOp):
            return set().union(*[self.roots(v) for v in e.values])
        if isinstance(e, (ast.Tuple, ast.List, ast.Set)):
            return set().union(*[self.roots(v) for v in e.elts]) if e.elts else set()
        if isinstance(e, ast.Dict):
            return set().union(*[self.roots(v) for v in e.values if v is not None]) if e.values else set()
        if isinstance(e, ast.NamedExpr):
            return self.roots(e.value)
        if isinstance(e, ast.Call):
            return self.call_roots(e)
        if isinstance(e, (ast.ListComp, ast.GeneratorExp, ast.SetComp)):
            return self.roots(e.elt)
        return set()

    def call_targets(self, e):
        """[(mod, cls, fn, dyn, receiver_expr)] of package functions this call may reach"""
        f = e.func
        out = []
        if isinstance(f, ast.Name):
            r = self.pkg.resolve_name(self.mod, f.id)
            if r and r[0] == 'func':
                out.append((r[1], None, r[2], None, None))
            elif r and r[0] == 'class':
                m = self.pkg.find_method(r[1], r[2], '__init__')
                if m:
                    out.append((m[0], m[1], m[2], (r[1], r[2], False), 'new'))
        elif isinstance(f, ast.Attribute):
            recv = f.value
            is_self = isinstance(recv, ast.Name) and recv.id == 'self' and self.cls is not None and self.pos[:1] == ['self']
            if isinstance(recv, ast.Call) and isinstance(recv.func, ast.Name) and recv.func.id == 'super' and self.cls is not None:
                mro = self.pkg.class_mro(self.mod, self.cls)[1:]
                for m, c in mro:
                    hit = [st for st in c.body if isinstance(st, ast.FunctionDef) and st.name == f.attr]
                    if hit:
                        out.append((m, c, hit[0], self.dyn, ast.Name(id='self', ctx=ast.Load())))
                        break
            elif is_self:
                dm, dc, op = self.dyn if self.dyn else (self.mod, self.cls, True)
                seen = set()
                m = self.pkg.find_method(dm, dc, f.attr)
                if m:
                    out.append((m[0], m[1], m[2], (dm, dc, op), recv))
                    seen.add(id(m[2]))
                if op or not m:
                    # overrides in subclasses (the exact class of self is not known) / methods subclasses must provide
                    for sm, sc in self.pkg.subclasses_of(dc.name):
                        mm = self.pkg.find_method(sm, sc, f.attr)
                        if mm and id(mm[2]) not in seen:
                            seen.add(id(mm[2]))
                            out.append((mm[0], mm[1], mm[2], (sm, sc, op), recv))
            else:
                dn = dotted(f)
                r = None
                if dn and isinstance(recv, ast.Name) and recv.id not in self.params and recv.id not in self.alias:
                    # module.function
                    imp = self.pkg.imports.get(self.mod, {}).get(recv.id)
                    if imp:
                        base = imp[0] + '.' + imp[1] if imp[0] else imp[1]
                        if base in self.pkg.modules:
                            r = self.pkg.resolve_name(base, f.attr)
                if r and r[0] == 'func':
                    out.append((r[1], None, r[2], None, None))
                elif r is None and not f.attr.startswith('__'):
                    for m, c, fn in self.pkg.methods_named(f.attr):
                        out.append((m, c, fn, (m, c, True), recv))
        return out

    def bind(self, callee_fn, e, receiver):
        """callee parameter name -> actual argument expression"""
        pos, _ = params_of(callee_fn)
        m = {}
        args = list(e.args)
        if receiver is not None and pos[:1] == ['self']:
            if receiver != 'new':
                m['self'] = receiver
            pos = pos[1:]
        for p, a in zip(pos, args):
            if isinstance(a, ast.Starred):
                break
            m[p] = a
        for k in e.keywords:
            if k.arg:
                m[k.arg] = k.value
        return m

    def map_root(self, r, binding):
        """callee root -> set of caller roots"""
        if r[0] == 'g':
            return {r}
        a = binding.get(r[1])
        if a is None:
            return set()
        base = self.roots(a)
        return {b + r[2:] if b[0] == 'p' else b for b in base}

    def call_roots(self, e):
        f = e.func
        name = f.attr if isinstance(f, ast.Attribute) else (f.id if isinstance(f, ast.Name) else None)
        tg = self.call_targets(e)
        if tg:
            out = set()
            for m, c, fn, dyn, recv in tg:
                if recv == 'new':
                    continue                      # a new object: fresh
                if _memoised(fn):
                    # the value of a memoised function is SHARED by every caller that passes the same arguments: it is module-level
                    # state (harmless while nobody writes to it -- a compiled class -- a leak between fits as soon as somebody does)
                    out.add(('g', m, 'cache-of:' + fn.name))
                s = self.pkg.summary(m, fn, c, dyn)
                b = self.bind(fn, e, recv)
                for r in s['ret']:
                    out |= self.map_root(r, b)
            return out
        if isinstance(f, ast.Attribute) and name in VIEW_METHODS:
            if name == 'astype':
                cp = [k for k in e.keywords if k.arg == 'copy']
                if not cp or not (isinstance(cp[0].value, ast.Constant) and cp[0].value.value is False):
                    return set()
            if name == '_validate_data':
                return set().union(*[self.roots(a) for a in e.args]) if e.args else set()
            return self.roots(f.value)
        if name in ALIAS_FUNCS:
            if name == 'array':
                cp = [k for k in e.keywords if k.arg == 'copy']
                if not cp or not (isinstance(cp[0].value, ast.Constant) and cp[0].value.value is False):
                    return set()
            out = set()
            for a in e.args:
                out |= self.roots(a)
            for k in e.keywords:
                if k.arg in ('a', 'X', 'y', 'array', 'object'):
                    out |= self.roots(k.value)
            return out
        return set()

    # ---- writes
    def w_elem(self, roots, line, why):
        for r in roots:
            (self.glob if r[0] == 'g' else self.elem).setdefault(r, []).append((line, why))

    def w_attr(self, roots, attr, line, why):
        for r in roots:
            if r[0] == 'g':
                self.glob.setdefault(r, []).append((line, why))
            else:
                self.attr.setdefault((r, attr), []).append((line, why))

    def target_write(self, t, line, aug=False):
        if isinstance(t, (ast.Tuple, ast.List)):
            for x in t.elts:
                self.target_write(x, line, aug)
        elif isinstance(t, ast.Starred):
            self.target_write(t.value, line, aug)
        elif isinstance(t, ast.Subscript):
            rs = self.roots(t.value)
            if rs and all(r[0] == 'g' for r in rs) and not aug and self.complete_memo_key(t.slice):
                for r in rs:
                    self.memo.setdefault(r, []).append((line, ast.unparse(t)[:60] + ' = (memo, key holds every parameter)'))
            else:
                self.w_elem(rs, line, ast.unparse(t)[:50] + (' op=' if aug else ' ='))
        elif isinstance(t, ast.Attribute):
            if t.attr in VIEW_ATTRS:
                self.w_elem(self.roots(t.value), line, ast.unparse(t)[:50] + ' =')
            else:
                self.w_attr(self.roots(t.value), t.attr, line, ast.unparse(t)[:50] + (' op=' if aug else ' ='))
        elif isinstance(t, ast.Name):
            if aug and t.id not in self.immutable:
                self.w_elem(self.alias_only(t.id), line, t.id + ' op=')
            if t.id in self.declared_global:
                self.glob.setdefault(('g', self.mod, t.id), []).append((line, t.id + ' = (global)'))

    def complete_memo_key(self, key):
        """does the key expression of  G[key] = value  mention every parameter of the function (directly or through local names
        bound once to expressions over parameters)?  Then the stored value is a function of the key and re-use cannot leak."""
        names, todo, seen = set(), [key], set()
        while todo:
            e = todo.pop()
            for n in ast.walk(e):
                if isinstance(n, ast.Name) and n.id not in seen:
                    seen.add(n.id)
                    names.add(n.id)
                    for v in self.bound.get(n.id, []):
                        todo.append(v)
        params = {p for p in self.params if p not in ('self', 'cls')}
        return bool(params) and params <= names

    def alias_only(self, name):
        out = set(self.alias.get(name, ()))
        if name in self.params:
            out.add(('p', name))
        return out

    def visit_call(self, e):
        f = e.func
        name = f.attr if isinstance(f, ast.Attribute) else (f.id if isinstance(f, ast.Name) else None)
        line = e.lineno
        tg = self.call_targets(e)
        for m, c, fn, dyn, recv in tg:
            s = self.pkg.summary(m, fn, c, dyn)
            b = self.bind(fn, e, recv)
            lab = f'call {ast.unparse(f)[:40]} -> {c.name + "." if c is not None else ""}{fn.name}'
            for r, ev in s['elem'].items():
                self.w_elem(self.map_root(r, b), line, lab + f' writes {"/".join(map(str, r[1:]))} (line {ev[0][0]})')
            for (r, at), ev in s['attr'].items():
                self.w_attr(self.map_root(r, b), at, line, lab + f' sets {"/".join(map(str, r[1:]))}.{at} (line {ev[0][0]})')
            for r, ev in s['glob'].items():
                self.glob.setdefault(r, []).append((line, lab + f' writes module state {r[1]}.{r[2]}'))
        if not tg:
            if isinstance(f, ast.Attribute) and name in MUTATORS:
                self.w_elem(self.roots(f.value), line, f'.{name}()')
            if name in FIRST_ARG_MUTATORS and e.args:
                if name in ('setattr', 'delattr'):
                    self.w_attr(self.roots(e.args[0]), '*', line, f'{name}()')
                else:
                    self.w_elem(self.roots(e.args[0]), line, f'{name}()')
        for k in e.keywords:
            if k.arg == 'out':
                self.w_elem(self.roots(k.value), line, 'out=')

    def run(self):
        body = self.fn.body
        stmts = [n for n in ast.walk(ast.Module(body=body, type_ignores=[]))]
        for n in stmts:
            if isinstance(n, (ast.Global, ast.Nonlocal)):
                self.declared_global |= set(n.names)
        bound = self.bound = {}
        for n in stmts:
            if isinstance(n, ast.Assign):
                for t in n.targets:
                    if isinstance(t, ast.Name):
                        bound.setdefault(t.id, []).append(n.value)
        for nm, vals in bound.items():
            if nm not in self.params and all(isinstance(v, (ast.Tuple, ast.Constant, ast.JoinedStr)) for v in vals):
                self.immutable.add(nm)
        # alias fixpoint (flow-insensitive)
        for _ in range(6):
            before = {k: set(v) for k, v in self.alias.items()}
            for n in stmts:
                if isinstance(n, ast.Assign):
                    for t in n.targets:
                        self.assign(t, n.value)
                elif isinstance(n, ast.AnnAssign) and n.value is not None:
                    self.assign(n.target, n.value)
                elif isinstance(n, ast.NamedExpr):
                    self.assign(n.target, n.value)
                elif isinstance(n, (ast.For, ast.AsyncFor)):
                    self.assign(n.target, n.iter)
                elif isinstance(n, ast.comprehension):
                    self.assign(n.target, n.iter)
                elif isinstance(n, (ast.With, ast.AsyncWith)):
                    for it in n.items:
                        if it.optional_vars is not None:
                            self.assign(it.optional_vars, it.context_expr)
            if before == self.alias:
                break
        for n in stmts:
            if isinstance(n, ast.Assign):
                for t in n.targets:
                    self.target_write(t, n.lineno)
            elif isinstance(n, ast.AnnAssign):
                self.target_write(n.target, n.lineno)
            elif isinstance(n, ast.AugAssign):
                self.target_write(n.target, n.lineno, aug=True)
            elif isinstance(n, ast.Delete):
                for t in n.targets:
                    self.target_write(t, n.lineno)
            elif isinstance(n, ast.Call):
                self.visit_call(n)
            elif isinstance(n, ast.Return) and n.value is not None:
                self.ret |= self.roots(n.value)
        return dict(elem=self.elem, attr=self.attr, ret=self.ret, glob=self.glob, memo=self.memo)

    def assign(self, t, value):
        if isinstance(t, ast.Name):
            self.alias.setdefault(t.id, set()).update(self.roots(value))
        elif isinstance(t, (ast.Tuple, ast.List)):
            if isinstance(value, (ast.Tuple, ast.List)) and len(value.elts) == len(t.elts) \
                    and not any(isinstance(x, ast.Starred) for x in list(t.elts) + list(value.elts)):
                for a, b in zip(t.elts, value.elts):
                    self.assign(a, b)
            else:
                for a in t.elts:
                    self.assign(a, value)
        elif isinstance(t, ast.Starred):
            self.assign(t.value, value)

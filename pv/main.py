import argparse
import os
import sys


def main():
    ap = argparse.ArgumentParser()
    ap.add_argument('prop')
    ap.add_argument('--tier', default=os.environ.get('VERIF_TIER', 'quick'), choices=['quick', 'thorough', 'extended'])
    ap.add_argument('--replay')
    ap.add_argument('--only')
    ap.add_argument('--jobs', type=int)
    a = ap.parse_args()
    if a.replay:
        from . import core
        ok, txt = core.run_replay(a.replay)
        print(txt)
        sys.exit(1 if ok else 0)
    from . import symrun   # noqa: sets NUMBA_DISABLE_JIT before numba is imported
    from . import core
    seed = int(os.environ.get('VERIF_SEED', '0') or 0)
    sys.exit(core.run_check(a.prop, a.tier, seed, a.jobs, a.only))


if __name__ == '__main__':
    main()

"""native replay of a counterexample: real, numba-compiled code in this interpreter (JIT on).
exit 10 = the failing input reproduces on the real code, 0 = it does not, other = harness error"""
import importlib
import json
import os
import sys


def main(path):
    assert 'NUMBA_DISABLE_JIT' not in os.environ
    repo = os.environ.get('SKGLM_REPO', '/repo')
    if repo not in sys.path:
        sys.path.insert(0, repo)
    rec = json.load(open(path))
    r = rec.get('replay')
    if not r:
        print('no replay harness recorded for', rec.get('obligation'))
        return 0
    mod, fn = r['fn'].split(':')
    f = getattr(importlib.import_module(mod), fn)
    res = f(r.get('args', {}), r.get('model', {}))
    print(json.dumps(res, indent=1, default=str))
    return 10 if res.get('confirmed') else 0


if __name__ == '__main__':
    sys.exit(main(sys.argv[1]))

"""merge the results of tools/seed_matrix.py (<out-dir>/<seed>.json) into seeded/<seed>/detect.json and rewrite the table between the
SEED-TABLE markers of DESIGN.md.  usage: seed_table.py <out-dir>"""
import json, os, re, sys
ROOT = os.path.dirname(os.path.dirname(os.path.abspath(__file__)))
out = sys.argv[1] if len(sys.argv) > 1 else None
rows = []
for name in sorted(os.listdir(os.path.join(ROOT, 'seeded'))):
    sd = os.path.join(ROOT, 'seeded', name)
    if not os.path.exists(os.path.join(sd, 'patch.diff')):
        continue
    res = None
    if out and os.path.exists(os.path.join(out, name + '.json')):
        res = json.load(open(os.path.join(out, name + '.json')))
        json.dump(res, open(os.path.join(sd, 'detect.json'), 'w'), indent=1)
    elif os.path.exists(os.path.join(sd, 'detect.json')):
        res = json.load(open(os.path.join(sd, 'detect.json')))
    meta = json.load(open(os.path.join(sd, 'meta.json'))) if os.path.exists(os.path.join(sd, 'meta.json')) else {}
    own = name.split('-')[0]
    if res is None:
        rows.append((name, '?', 'not evaluated', '', ''))
        continue
    if '_apply' in res:
        rows.append((name, ', '.join(res.get('files', [])), 'patch does not apply to the repaired tree: ' + (meta.get('not_installable') or res['_apply'][:80]), '', ''))
        continue
    if not res.get('files'):
        res['files'] = sorted({l[6:].strip() for l in open(os.path.join(sd, 'patch.diff')) if l.startswith('+++ b/')})
    caught = [p for p, v in res.items() if isinstance(v, dict) and v.get('exit') == 1]
    confirmed = [p for p in caught if res[p].get('confirmed')]
    undec = [p for p, v in res.items() if isinstance(v, dict) and v.get('exit') in (2, 3)]
    ran = [p for p, v in res.items() if isinstance(v, dict)]
    first = ''
    for p in ([own] if own in caught else []) + caught:
        ff = res[p].get('first_failed') or []
        if ff:
            first = re.sub(r'^failed obligation: ', '', ff[0]).split('  model=')[0][:110]
            break
    verdict = 'caught by ' + ', '.join(caught) + (f' (replayed natively: {", ".join(confirmed)})' if confirmed else '') if caught else \
        ('undecided: ' + ', '.join(undec) if undec else 'MISSED')
    rows.append((name, ', '.join(f.split('/')[-1] for f in res.get('files', [])), verdict, ', '.join(ran), first))
lines = ['| seed | file | result | checks run | first failed obligation |', '|---|---|---|---|---|']
for r in rows:
    lines.append('| ' + ' | '.join(str(x).replace('|', '\\|') for x in r) + ' |')
n_c = sum(1 for r in rows if r[2].startswith('caught'))
lines.append('')
lines.append(f'{n_c} of {len(rows)} seeded changes are reported as a violation by at least one quick check; '
             f'{sum(1 for r in rows if r[2] == "MISSED")} missed, {sum(1 for r in rows if r[2].startswith("undecided"))} undecided, '
             f'{sum(1 for r in rows if r[2].startswith("patch does not"))} not applicable to the repaired tree.')
p = os.path.join(ROOT, 'DESIGN.md')
s = open(p).read()
a, b = s.index('<!-- SEED-TABLE-BEGIN -->'), s.index('<!-- SEED-TABLE-END -->')
s = s[:a] + '<!-- SEED-TABLE-BEGIN -->\n' + '\n'.join(lines) + '\n' + s[b:]
open(p, 'w').write(s)
print('\n'.join(lines[-1:]))

"""print a python file without docstrings/blank lines, with original line numbers (reading aid)"""
import ast, sys
def strip(path):
    src = open(path).read(); tree = ast.parse(src); lines = src.split('\n'); kill = set()
    for n in ast.walk(tree):
        if isinstance(n, (ast.FunctionDef, ast.ClassDef, ast.Module)):
            b = n.body
            if b and isinstance(b[0], ast.Expr) and isinstance(b[0].value, ast.Constant) and isinstance(b[0].value.value, str):
                kill.update(range(b[0].lineno - 1, b[0].end_lineno))
    for i, l in enumerate(lines):
        if i in kill or not l.strip(): continue
        print(f"{i+1}:{l}")
for p in sys.argv[1:]:
    print('=====', p); strip(p)

"""apply one textual mutation to a scratch worktree of /repo and run checks against it.
usage: mut.py <relpath> <old> <new> <prop> [<prop> ...]   (old/new python string literals with \\n allowed)"""
import os, subprocess, sys, tempfile, shutil
rel, old, new, props = sys.argv[1], sys.argv[2].encode().decode('unicode_escape'), sys.argv[3].encode().decode('unicode_escape'), sys.argv[4:]
base = os.environ.get('TMPDIR', '/tmp')
d = tempfile.mkdtemp(prefix='mut_', dir=base)
wt = os.path.join(d, 'r')
subprocess.run(['git', '-C', '/repo', 'worktree', 'add', '-q', '--detach', wt, 'HEAD'], check=True)
try:
    p = os.path.join(wt, rel)
    s = open(p).read()
    if s.count(old) < 1:
        print('PATTERN NOT FOUND'); sys.exit(9)
    open(p, 'w').write(s.replace(old, new, 1))
    env = dict(os.environ, SKGLM_REPO=wt)
    for pr in props:
        args = pr.split(':')
        cmd = ['/verif/check', args[0]] + (['--only', args[1]] if len(args) > 1 else [])
        r = subprocess.run(cmd, env=env, capture_output=True, text=True)
        tail = [l for l in r.stdout.split('\n') if l.startswith(('VIOLATION', 'KNOWN', pr[:3]))][-3:]
        print(f'{pr}: exit={r.returncode}', ' | '.join(tail)[:400])
finally:
    subprocess.run(['git', '-C', '/repo', 'worktree', 'remove', '--force', wt])
    shutil.rmtree(d, ignore_errors=True)

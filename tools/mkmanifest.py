"""regenerate MANIFEST.json from the table below (kept valid at all times)"""
import json, os
ROOT = os.path.dirname(os.path.dirname(os.path.abspath(__file__)))
CHECKS = json.load(open(os.path.join(ROOT, 'tools', 'manifest_checks.json')))
props = [json.loads(l)['id'] for l in open(os.path.join(ROOT, 'properties.jsonl'))]
checks, na = [], []
for pid in props:
    c = CHECKS.get(pid)
    if not c or c.get('not_applicable'):
        na.append(dict(property_id=pid, reason=(c or {}).get('not_applicable', 'check not built yet in this round; see DESIGN.md section 9')))
        continue
    checks.append(dict(
        property_id=pid,
        quick_cmd=f'./check {pid} --tier quick',
        thorough_cmd=f'./check {pid} --tier thorough',
        evidence_file=f'/verif/evidence/{pid}.json',
        replay_cmd_template=f'./check {pid} --replay {{path}}',
        engine='pv',
        level_claimed=dict(category=c['category'], text=c['text'], design_ref=c.get('design_ref', '')),
        level_note=c['note'],
        technique=c['technique']))
m = dict(
    version=1,
    setup_cmd='./setup.sh',
    hooks=dict(guard='SKGLM_VERIF', enable='no source hooks are needed: contracts are sidecar files under /verif/contracts; checks import /repo with numba\'s own NUMBA_DISABLE_JIT=1',
               baseline_off_cmd='cd /repo && /venv/bin/python -m pytest -ra -q -p no:cacheprovider --timeout=900 --continue-on-collection-errors',
               source_commits=[], add_only=True),
    engines=[dict(name='pv', path='/verif/pv', serves_properties=[c['property_id'] for c in checks],
                  kind_free_text='contract-based deductive verification: sidecar contracts on the real skglm functions; front end S executes the real functions on z3-backed symbolic reals (all paths), front end V generates VCs from the real AST; z3 5.1 discharges, cvc5 fallback; counterexamples replayed natively (JIT on)')],
    checks=checks,
    notes='See DESIGN.md. Exit codes: 0 held, 1 violation (VIOLATION line), 2 undecided, 3 checker error.',
    not_applicable=na)
json.dump(m, open(os.path.join(ROOT, 'MANIFEST.json'), 'w'), indent=1)
print('checks:', [c['property_id'] for c in checks], 'n/a:', len(na))
import subprocess, sys
subprocess.run([sys.executable, os.path.join(ROOT, 'tools', 'scan_assumptions.py')], check=False)

#!/bin/bash
# usage: seed_verify.sh <id> <k> : confirm a seeded change myself on a scratch worktree of /repo HEAD
id=$1; k=$2; out=${SEED_BASE:-/tmp/seed}/$id/out/$k
wt=$(mktemp -d /tmp/sv_${id}_${k}_XXXX)/r
git -C /repo worktree add -q --detach $wt HEAD || exit 9
cd $wt
res="{\"id\":\"$id\",\"k\":$k"
/venv/bin/python $out/demo.py > $out/verify_pristine.log 2>&1; r0=$?
if git apply --3way $out/patch.diff 2> $out/verify_apply.log || git apply $out/patch.diff 2>> $out/verify_apply.log; then ap=1; else ap=0; fi
git reset -q 2>/dev/null
/venv/bin/python $out/demo.py > $out/verify_patched.log 2>&1; r1=$?
PYTHONPATH=$wt timeout 2400 /venv/bin/python -m pytest -q -p no:cacheprovider --timeout=900 --continue-on-collection-errors --junitxml=$out/verify_junit.xml > $out/verify_pytest.log 2>&1
python3 /verif/tools/cmp_baseline.py $out/verify_junit.xml > $out/verify_baseline.log 2>&1; rb=$?
git diff > $out/patch_on_head.diff
echo "$res,\"applies\":$ap,\"demo_pristine_exit\":$r0,\"demo_patched_exit\":$r1,\"baseline_ok\":$((1-rb)),\"head\":\"$(git -C /repo rev-parse --short HEAD)\"}" > $out/verify.json
cd /; git -C /repo worktree remove --force $wt; rm -rf $(dirname $wt)
cat $out/verify.json

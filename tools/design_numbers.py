"""refresh the `level | U discharged | B passed` cells of the table in DESIGN.md section 11 from evidence/<id>.json (quick tier runs)"""
import json, os, re
ROOT = os.path.dirname(os.path.dirname(os.path.abspath(__file__)))
p = os.path.join(ROOT, 'DESIGN.md')
s = open(p).read()
for k in range(1, 21):
    pid = f'C{k:02d}'
    f = os.path.join(ROOT, 'evidence', pid + '.json')
    if not os.path.exists(f):
        continue
    d = json.load(open(f))
    c = d['coverage']
    pat = re.compile(r'^\| ' + pid + r' \| \w+ \| \d+ \| \d+ \|', re.M)
    new = f"| {pid} | {d['level']} | {c['discharged']} | {c['bounded_passed']} |"
    s, n = pat.subn(new, s, count=1)
    print(pid, d['tier'], new, 'updated' if n else 'NOT FOUND')
open(p, 'w').write(s)

"""copy verified seeds from $SEED_BASE/<id>/out/<k> (default /tmp/seed) into /verif/seeded/<id>-<k>/ (patch.diff, demo.py, notes.md, meta.json)"""
import json, os, shutil, sys, glob
props = {json.loads(l)['id']: json.loads(l) for l in open('/verif/properties.jsonl')}
BASE = os.environ.get('SEED_BASE', '/tmp/seed')
OFFSET = int(os.environ.get('SEED_OFFSET', '0'))      # round 2 seeds are installed as <id>-<k+3>
for d in sorted(glob.glob(BASE + '/C*/out/[0-9]')):
    pid, k = d.split('/')[-3], str(int(d.split('/')[-1]) + OFFSET)
    vf = os.path.join(d, 'verify.json')
    if not os.path.exists(vf):
        continue
    v = json.load(open(vf))
    ok = v['applies'] and v['demo_pristine_exit'] == 0 and v['demo_patched_exit'] != 0 and v['baseline_ok']
    if not ok:
        print('skip', pid, k, v); continue
    dst = f'/verif/seeded/{pid}-{k}'
    os.makedirs(dst, exist_ok=True)
    src_patch = os.path.join(d, 'patch_on_head.diff')
    if not os.path.exists(src_patch) or os.path.getsize(src_patch) == 0:
        src_patch = os.path.join(d, 'patch.diff')
    shutil.copy(src_patch, os.path.join(dst, 'patch.diff'))
    shutil.copy(os.path.join(d, 'demo.py'), os.path.join(dst, 'demo.py'))
    notes = open(os.path.join(d, 'notes.md')).read() if os.path.exists(os.path.join(d, 'notes.md')) else ''
    open(os.path.join(dst, 'notes.md'), 'w').write(notes)
    meta_p = os.path.join(dst, 'meta.json')
    meta = json.load(open(meta_p)) if os.path.exists(meta_p) else {}
    meta.update(dict(property=pid, title=props[pid]['title'], source='independent sub-agent given only the property text',
                needs_to_manifest=notes[:1500],
                confirmed_by_me=dict(repo_head=v['head'], patch_applies=True, demo_exit_pristine=v['demo_pristine_exit'],
                                     demo_exit_patched=v['demo_patched_exit'], baseline_188_still_pass=bool(v['baseline_ok']),
                                     how='tools/seed_verify.sh: scratch worktree of /repo HEAD, demo before/after `git apply`, full pytest run compared with BASELINE.json stable_pass')))
    json.dump(meta, open(meta_p, 'w'), indent=1)
    print('installed', dst)

import sys, traceback
sys.path.insert(0, '/verif')
from pv import symrun
from pv import core
from contracts import solvers, c01
name, warm, prop = sys.argv[1], sys.argv[2] == 'warm', sys.argv[3]
class Tk: prop=prop; name=f'solvers:{name}'; strength='U'; tier='quick'; kwargs={}; module='x'
T = core.T(Tk, 'quick', 20000)
try:
    solvers.solver_task(T, name, warm, (prop,))
except Exception:
    traceback.print_exc()
import collections
c = collections.Counter((r['status']) for r in T.results)
print(c)
import re
for r in T.results:
    if r['status'] not in ('proved', 'covered'):
        print(r['status'], r['name'], (r['note'] or '')[:300], core._short(r['model']))
c2 = collections.Counter((re.sub(r'(@p\d+|#\d+)$','',r['name']), r['status']) for r in T.results)
for k,v in sorted(c2.items()): print(v, k)

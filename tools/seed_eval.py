"""run checks against an installed seed: seed_eval.py <seed-dir-name> <prop> [<prop>...]; writes seeded/<name>/detect.json"""
import json, os, subprocess, sys, tempfile, shutil, time
name, props = sys.argv[1], sys.argv[2:]
sd = f'/verif/seeded/{name}'
d = tempfile.mkdtemp(prefix='se_', dir='/tmp')
wt = os.path.join(d, 'r')
subprocess.run(['git', '-C', '/repo', 'worktree', 'add', '-q', '--detach', wt, 'HEAD'], check=True)
res = {}
try:
    r = subprocess.run(['git', '-C', wt, 'apply', '--3way', os.path.join(sd, 'patch.diff')], capture_output=True, text=True)
    if r.returncode != 0:
        res['_apply'] = r.stderr[:300]
    else:
        for pr in props:
            env = dict(os.environ, SKGLM_REPO=wt, VERIF_MAX_REPLAY='4')
            t = time.time()
            r = subprocess.run(['/verif/check', pr], env=env, capture_output=True, text=True)
            vio = [l for l in r.stdout.split('\n') if l.startswith('VIOLATION')]
            failed = [l.strip()[:300] for l in r.stdout.split('\n') if l.strip().startswith('failed obligation')]
            res[pr] = dict(exit=r.returncode, violations=len(vio), confirmed=sum(1 for l in vio if 'no-failing-input-found' not in l),
                           first_failed=failed[:3], secs=round(time.time() - t, 1))
finally:
    subprocess.run(['git', '-C', '/repo', 'worktree', 'remove', '--force', wt])
    shutil.rmtree(d, ignore_errors=True)
p = os.path.join(sd, 'detect.json')
old = json.load(open(p)) if os.path.exists(p) else {}
old.update(res)
old['_repo_head'] = subprocess.run(['git', '-C', '/repo', 'rev-parse', '--short', 'HEAD'], capture_output=True, text=True).stdout.strip()
json.dump(old, open(p, 'w'), indent=1)
print(name, {k: (v['exit'], v['violations'], v['confirmed']) if isinstance(v, dict) else v for k, v in res.items()})

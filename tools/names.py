import json,sys,re,collections
# list distinct obligation labels (path suffix stripped) of the last run from a results dump

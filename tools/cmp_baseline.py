"""compare a junit xml of the repo test-suite with the stable-pass list of /root/.vp/BASELINE.json"""
import json, sys, xml.etree.ElementTree as ET
base = set(json.load(open('/root/.vp/BASELINE.json'))['stable_pass'])
t = ET.parse(sys.argv[1])
passed = set()
for tc in t.iter('testcase'):
    if not any(ch.tag in ('failure', 'error', 'skipped') for ch in tc):
        passed.add(f"{tc.get('classname')}::{tc.get('name')}")
print('passed', len(passed), 'baseline', len(base), 'missing from pass:', sorted(base - passed)[:10])
sys.exit(0 if base <= passed else 1)

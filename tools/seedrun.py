"""apply a patch file to a scratch worktree of /repo HEAD and run checks against it.
usage: seedrun.py <patch.diff> <prop[:only]> ..."""
import os, subprocess, sys, tempfile, shutil
patch, props = sys.argv[1], sys.argv[2:]
d = tempfile.mkdtemp(prefix='seedrun_', dir=os.environ.get('TMPDIR', '/tmp'))
wt = os.path.join(d, 'r')
subprocess.run(['git', '-C', '/repo', 'worktree', 'add', '-q', '--detach', wt, 'HEAD'], check=True)
try:
    r = subprocess.run(['git', '-C', wt, 'apply', '--3way', patch], capture_output=True, text=True)
    if r.returncode != 0:
        r = subprocess.run(['git', '-C', wt, 'apply', patch], capture_output=True, text=True)
    if r.returncode != 0:
        print('PATCH DOES NOT APPLY', r.stderr[:300]); sys.exit(9)
    env = dict(os.environ, SKGLM_REPO=wt)
    for pr in props:
        a = pr.split(':')
        cmd = ['/verif/check', a[0]] + (['--only', a[1]] if len(a) > 1 else [])
        r = subprocess.run(cmd, env=env, capture_output=True, text=True)
        lines = [l for l in r.stdout.split('\n') if l.startswith(('VIOLATION', 'KNOWN', '  failed', a[0]))]
        print(f'{pr}: exit={r.returncode}')
        for l in lines[:6] + lines[-1:]:
            print('   ', l[:260])
finally:
    subprocess.run(['git', '-C', '/repo', 'worktree', 'remove', '--force', wt])
    shutil.rmtree(d, ignore_errors=True)

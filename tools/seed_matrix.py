"""clean evaluation of every seeded change: for each /verif/seeded/<id>-<k> apply patch.diff to a scratch worktree of /repo HEAD and
run the quick check of the seed's own property and of the properties whose checks read the touched files.
usage: seed_matrix.py <verif-dir> <out-dir> [par] [seed-name-prefix ...]
(run it from a snapshot of /verif so that editing checks meanwhile does not contaminate the results)"""
import json, os, re, subprocess, sys, tempfile, shutil, time
from concurrent.futures import ThreadPoolExecutor
vdir, out = sys.argv[1], sys.argv[2]
par = int(sys.argv[3]) if len(sys.argv) > 3 else 2
prefixes = sys.argv[4:]
os.makedirs(out, exist_ok=True)
BY_FILE = [          # touched file -> the checks that read it most directly (own property is always run)
    (r'solvers/anderson_cd', ['C01', 'C05']),
    (r'solvers/gram_cd', ['C01', 'C17']),
    (r'solvers/(prox_newton|group_prox_newton)', ['C01', 'C03']),
    (r'solvers/group_bcd', ['C01', 'C19']),
    (r'solvers/multitask_bcd', ['C01', 'C20']),
    (r'solvers/(fista|lbfgs|common|base)', ['C01', 'C17']),
    (r'penalties/', ['C07', 'C08']),
    (r'utils/prox_funcs', ['C07']),
    (r'datafits/', ['C06', 'C09']),
    (r'utils/sparse_ops', ['C09', 'C10']),
    (r'utils/(validation|jit_compilation)', ['C13', 'C18']),
    (r'utils/anderson', ['C01']),
    (r'estimators', ['C05', 'C18']),
    (r'experimental/', ['C18']),
]


WIDE = os.environ.get('SEED_WIDE')          # second pass for seeds the first pass missed: every property not yet run


SECOND = [          # second pass (seeds the first pass missed): the remaining checks that read the touched file
    (r'solvers/', ['C19', 'C10', 'C03', 'C17', 'C20', 'C02', 'C16', 'C13', 'C18']),
    (r'penalties/|utils/prox_funcs', ['C04', 'C02', 'C14', 'C15', 'C16', 'C19', 'C20']),
    (r'datafits/|utils/sparse_ops', ['C10', 'C19', 'C14', 'C15', 'C20', 'C02', 'C06']),
    (r'estimators|experimental/', ['C11', 'C12', 'C14', 'C16', 'C13', 'C02']),
    (r'utils/', ['C11', 'C16', 'C01']),
]


def props_for(name):
    own = name.split('-')[0]
    if WIDE:
        done = json.load(open(os.path.join(out, name + '.json')))
        files = done.get('files', [])
        second = []
        for f in files:
            for pat, lst in SECOND:
                if re.search(pat, f):
                    second += [p for p in lst if p not in second and p not in done]
        return second, files
    patch = open(f'/verif/seeded/{name}/patch.diff').read()
    files = re.findall(r'^\+\+\+ b/(\S+)', patch, re.M)
    ps = [own]
    for f in files:
        for pat, lst in BY_FILE:
            if re.search(pat, f):
                ps += [p for p in lst if p not in ps]
    return ps, files


def run(name):
    ps, files = props_for(name)
    d = tempfile.mkdtemp(prefix='sm_', dir='/tmp')
    wt = os.path.join(d, 'r')
    subprocess.run(['git', '-C', '/repo', 'worktree', 'add', '-q', '--detach', wt, 'HEAD'], check=True)
    res = dict(files=files)
    try:
        r = subprocess.run(['git', '-C', wt, 'apply', '--3way', f'/verif/seeded/{name}/patch.diff'], capture_output=True, text=True)
        if r.returncode != 0:
            res['_apply'] = r.stderr[:300]
        else:
            for pr in ps:
                env = dict(os.environ, SKGLM_REPO=wt, VERIF_MAX_REPLAY='4', VERIF_JOBS=str(max(4, 16 // par)))
                t = time.time()
                r = subprocess.run([os.path.join(vdir, 'check'), pr], env=env, capture_output=True, text=True, cwd=vdir)
                lines = r.stdout.split('\n')
                vio = [l for l in lines if l.startswith('VIOLATION')]
                failed = [l.strip()[:260] for l in lines if l.strip().startswith('failed obligation')]
                res[pr] = dict(exit=r.returncode, violations=len(vio),
                               confirmed=sum(1 for l in vio if 'no-failing-input-found' not in l),
                               first_failed=failed[:3], secs=round(time.time() - t, 1),
                               summary=[l for l in lines if l.startswith(pr + ' [')][-1:])
    finally:
        subprocess.run(['git', '-C', '/repo', 'worktree', 'remove', '--force', wt])
        shutil.rmtree(d, ignore_errors=True)
    if WIDE:
        old = json.load(open(os.path.join(out, name + '.json')))
        old.update(res)
        res = old
    res['_repo_head'] = subprocess.run(['git', '-C', '/repo', 'rev-parse', '--short', 'HEAD'], capture_output=True, text=True).stdout.strip()
    res['_verif_head'] = subprocess.run(['git', '-C', vdir, 'rev-parse', '--short', 'HEAD'], capture_output=True, text=True).stdout.strip()
    json.dump(res, open(os.path.join(out, name + '.json'), 'w'), indent=1)
    print(name, {k: (v['exit'], v['violations'], v['confirmed']) for k, v in res.items() if isinstance(v, dict)}, flush=True)


names = sorted(n for n in os.listdir('/verif/seeded') if os.path.exists(f'/verif/seeded/{n}/patch.diff'))
if prefixes:
    names = [n for n in names if any(n.startswith(p) for p in prefixes)]
if WIDE:
    def _missed(n):
        f = os.path.join(out, n + '.json')
        if not os.path.exists(f):
            return False
        d = json.load(open(f))
        return '_apply' not in d and not any(isinstance(v, dict) and v.get('exit') == 1 for v in d.values())
    names = [n for n in names if _missed(n)]
else:
    names = [n for n in names if not os.path.exists(os.path.join(out, n + '.json'))]
with ThreadPoolExecutor(par) as ex:
    list(ex.map(run, names))
